package rules

import (
	"fmt"
	"go/token"
	"go/types"
	"strings"

	"golang.org/x/tools/go/ssa"

	"muxlint/internal/an"
)

func init() {
	register(&Spec{
		ID: "C10",
		Explanation: "Decides: R1 every segment of the pattern emits text or fails, in both URL builders (path query with enum exhaustion over the segment kinds); R2 strict mode writes a parameter value only behind Valid(value) of the same segment, and regexp validation is anchored at both ends (Valid) / at the start (Match); R3 with strict=true and a non-empty pattern every successful return of Router.URL passed Tree.URL; R4 a missing parameter is an error, the value is followed by the segment's suffix, the configured domain is prefixed on every path; R5 the '-' flag is stripped wherever a parameter name is set. " +
			"R16 (= C01.R20) parameter names are remembered by the parser on every path. " +
			"R17 the name is tested for emptiness after the ignore flag is stripped. " +
			"Not decided: 'fails iff malformed', and the round trip with dispatch.",
		Assumptions: commonAssumptions,
		Run: func(c *Ctx) {
			ruleSegmentsEmitOrFail(c, "R1")
			ruleStrictValidated(c, "R2")
			ruleStrictReachesValidator(c, "R3")
			ruleStrictLiveness(c, "R3b")
			ruleMissingParamFails(c, "R4")
			ruleNameCleaned(c, "R5")
			ruleParamLookupCommaOk(c, "R4")
			ruleRegexpQuoting(c, "R2c")
			ruleInterceptorShorthands(c, "R7")
			ruleGroupOptionOrder(c, "R9")
			ruleRequestPathIsMatched(c, "R8")
			ruleSearchTriesEverySibling(c, "R6", []*ssa.Function{c.A.TreeURL}, "strict URL building succeeds for every live route: the route lookup tries every sibling")
			ruleReadersWriteNothing(c, "R10", "tree", "router")
			rulePatternsEnterThroughTheParser(c, "R11")
			ruleCharClasses(c, "R12", "syntax.MatchDigit", "syntax.MatchWord")
			ruleConfiguredInterceptorsUsed(c, "R13")
			ruleChainWalkEndsAtTheRoot(c, "R14")
			ruleAdjacencyIsDecidedOnTheText(c, "R15")
			ruleParameterNamesAreRemembered(c, "R16")
			ruleStrippedNameIsNotEmpty(c, "R17")
			ruleBacktrackUndo(c, "R18")
		},
	})
}

func isBufWrite(in ssa.Instruction) (*ssa.CallCommon, bool) {
	call := an.CallOf(in)
	if call == nil {
		return nil, false
	}
	n := an.CalleeName(call)
	if strings.HasPrefix(n, "github.com/issue9/errwrap.(*StringBuilder).W") || strings.HasPrefix(n, "strings.(*Builder).Write") || strings.HasPrefix(n, "bytes.(*Buffer).Write") {
		return call, true
	}
	return nil, false
}

func urlBuilders(c *Ctx) []*ssa.Function {
	return []*ssa.Function{c.P.MustFunc("syntax.(*Interceptors).URL"), c.A.TreeURL}
}

type rangeLoop struct {
	hdr   *ssa.If
	slice ssa.Value
	elems []ssa.Instruction
}

// rangeLoops lists the range-over-slice loops of f with their element loads.
func rangeLoops(f *ssa.Function) []*rangeLoop {
	m := map[*ssa.If]*rangeLoop{}
	var order []*ssa.If
	an.AllInstrs(f, func(in ssa.Instruction) {
		v, ok := in.(ssa.Value)
		if !ok {
			return
		}
		if h, s, isElem := an.RangeLoopOf(v); isElem {
			if m[h] == nil {
				m[h] = &rangeLoop{hdr: h, slice: s}
				order = append(order, h)
			}
			m[h].elems = append(m[h].elems, in)
		}
	})
	var out []*rangeLoop
	for _, h := range order {
		out = append(out, m[h])
	}
	return out
}

func loopBackEdge(l *rangeLoop) func(b *ssa.BasicBlock, succ int) bool {
	hb := l.hdr.Block()
	return func(b *ssa.BasicBlock, succ int) bool {
		if b.Succs[succ] != hb {
			return false
		}
		// not the pre-header: the pre-header does not come after the element load
		return true
	}
}

// ruleSegmentsEmitOrFail is C10.R1.
func ruleSegmentsEmitOrFail(c *Ctx, rule string) {
	c.R.Rule(c.R.Property+"."+rule, 2, "all literal text kept in place and every {name} token replaced: no segment is silently skipped")
	for _, root := range urlBuilders(c) {
		n := 0
		for _, f := range builderCluster(c, root) {
			for _, l := range rangeLoops(f) {
				// only loops that emit; a write into the scratch builder a callee declares for itself (the segment
				// constructor assembling a regexp source) is not an emission into the URL
				isBufWrite := func(in ssa.Instruction) (*ssa.CallCommon, bool) {
					call, ok := isBufWrite(in)
					if ok && len(call.Args) > 0 {
						if al, isLocal := call.Args[0].(*ssa.Alloc); isLocal && al.Parent() != f {
							return nil, false
						}
					}
					return call, ok
				}
				emits := false
				for _, e := range l.elems {
					if (&an.Query{Deep: deepDefault, Target: func(in ssa.Instruction) bool { _, ok := isBufWrite(in); return ok }, Block: func(in ssa.Instruction) bool { return in == e }}).Search(an.After(e)) != nil {
						emits = true
					}
				}
				if !emits {
					continue
				}
				for _, e := range l.elems {
					n++
					elemVal, _ := e.(ssa.Value)
					path := (&an.Query{
						Facts: true,
						Deep:  deepDefault,
						// the parser returns no nil segment (a nil guard in the loop is dead code, not a way through)
						Assume: func(cond ssa.Value) (bool, bool) {
							if x, k, eq, ok := an.CondAtom(cond); ok && k.Value == nil && elemVal != nil && x == elemVal {
								return !eq, true
							}
							return false, false
						},
						Block:      func(in ssa.Instruction) bool { _, ok := isBufWrite(in); return ok || in == e },
						TargetEdge: loopBackEdge(l),
					}).Search(an.After(e))
					construct := "segment-loop:" + an.AP(l.slice) + "/emits-or-fails"
					o := c.R.Add(rule, c.fk(f), construct, c.pos(e), path == nil, ifelse(path == nil, "every feasible path through the loop body writes to the buffer or returns an error", "a segment can pass through the loop without emitting anything and without an error: the built URL silently drops that part of the pattern"))
					if path != nil {
						o.Path = c.P.PathString(path)
					}
				}
			}
		}
		if n == 0 {
			c.R.Add(rule, c.fk(root), "segment-loop:none", c.P.Pos(root.Pos()), true, "the builder does not emit from a range loop over the segments (recursive or iterator form): the emits-or-fails rule has no loop body to examine here")
		}
	}
}

// builderCluster: the URL builder and the module functions it reaches by static calls (a helper may hold the loop).
func builderCluster(c *Ctx, root *ssa.Function) []*ssa.Function {
	reach := an.NewGraph(c.P).Reach([]*ssa.Function{root}, func(_ *ssa.Function, e an.Edge) bool { return e.Kind == "static" })
	out := []*ssa.Function{root}
	for _, f := range an.SortedFuncs(reach) {
		if f != root && an.IsLibrary(f) && len(f.Blocks) > 0 {
			out = append(out, f)
		}
	}
	return out
}

// acceptQuery builds the targets of "the boolean function returns a possibly-true value".
// impliedBy(v) marks phi-edge values that themselves imply the guard (the guard is the last conjunct).
func acceptTargets(f *ssa.Function, implied func(v ssa.Value) bool) (func(ssa.Instruction) bool, func(*ssa.BasicBlock, int) bool) {
	phiRet := map[*ssa.BasicBlock]*ssa.Phi{}
	for _, r := range an.Returns(f) {
		if len(r.Results) == 0 {
			continue
		}
		if phi, ok := r.Results[0].(*ssa.Phi); ok && phi.Block() == r.Block() {
			phiRet[r.Block()] = phi
		}
	}
	target := func(in ssa.Instruction) bool {
		r, ok := in.(*ssa.Return)
		if !ok || len(r.Results) == 0 {
			return false
		}
		if _, isPhi := phiRet[r.Block()]; isPhi {
			return false
		}
		if k, isConst := r.Results[0].(*ssa.Const); isConst {
			return k.Value != nil && k.Value.ExactString() == "true"
		}
		return !implied(r.Results[0])
	}
	targetEdge := func(b *ssa.BasicBlock, succ int) bool {
		sb := b.Succs[succ]
		phi := phiRet[sb]
		if phi == nil {
			return false
		}
		for i, p := range sb.Preds {
			if p == b {
				e := phi.Edges[i]
				if k, isConst := e.(*ssa.Const); isConst && k.Value != nil && k.Value.ExactString() == "false" {
					return false
				}
				return !implied(e)
			}
		}
		return false
	}
	return target, targetEdge
}

// locCmp matches `loc[idx] == <rhs>`; rhsOK judges the other operand.
func locCmp(v ssa.Value, loc ssa.Value, idx int64, rhsOK func(ssa.Value) bool) bool {
	return locCmpOp(v, loc, idx, rhsOK, token.EQL)
}

func locCmpOp(v ssa.Value, loc ssa.Value, idx int64, rhsOK func(ssa.Value) bool, op token.Token) bool {
	bo, ok := v.(*ssa.BinOp)
	if !ok || bo.Op != op {
		return false
	}
	try := func(l, r ssa.Value) bool {
		u, ok := l.(*ssa.UnOp)
		if !ok || u.Op != token.MUL {
			return false
		}
		ia, ok := u.X.(*ssa.IndexAddr)
		if !ok || ia.X != loc {
			return false
		}
		k, ok := ia.Index.(*ssa.Const)
		return ok && k.Value != nil && k.Int64() == idx && rhsOK(r)
	}
	return try(bo.X, bo.Y) || try(bo.Y, bo.X)
}

// ruleStrictValidated is C10.R2.
func ruleStrictValidated(c *Ctx, rule string) {
	a := c.A
	c.R.Rule(c.R.Property+"."+rule+"a", 1, "strict mode fails unless every value satisfies its parameter's constraint: a value is written only behind Valid(value)")
	c.R.Rule(c.R.Property+"."+rule+"b", 2, "the constraint is checked over the whole length of the value: regexp results are anchored")
	valid := c.P.MustFunc("syntax.(*Segment).Valid")
	// (a) Tree.URL: writes of a looked-up parameter value are dominated by Valid(value) on the same segment
	root := a.TreeURL
	n := 0
	for _, f := range builderCluster(c, root) {
		f := f
		an.AllInstrs(f, func(in ssa.Instruction) {
			call, ok := isBufWrite(in)
			if !ok || len(call.Args) < 2 {
				return
			}
			arg := call.Args[1]
			var lk *ssa.Lookup
			if ex, isEx := arg.(*ssa.Extract); isEx {
				lk, _ = ex.Tuple.(*ssa.Lookup)
			} else if l2, isLk := arg.(*ssa.Lookup); isLk {
				lk = l2
			}
			if lk == nil {
				return
			}
			if _, isParam := lk.X.(*ssa.Parameter); !isParam {
				return
			}
			n++
			segAP := strings.TrimSuffix(an.AP(lk.Index), ".Name")
			dom := an.DominatedByEdgeDeep([]*ssa.Function{root}, in, func(b *ssa.BasicBlock, succ int) bool {
				return edgeHas(b, succ, func(cond ssa.Value, truth bool) bool {
					vc, ok := cond.(*ssa.Call)
					if !ok {
						return false
					}
					if g := an.StaticCallee(&vc.Call); g != valid {
						return false
					}
					return truth && an.AP(vc.Call.Args[0]) == segAP && (vc.Call.Args[1] == arg || an.AP(vc.Call.Args[1]) == an.AP(arg))
				})
			}, deepDefault)
			c.R.Add(rule+"a", c.fk(f), "write:param-value/requires:Valid("+segAP+")", c.pos(in), dom, ifelse(dom, "dominated by the true edge of Valid(value) on the same segment", "strict URL building writes a parameter value that was not validated against its segment"))
		})
	}
	if n == 0 {
		c.R.Add(rule+"a", c.fk(root), "write:param-value/requires:Valid", c.P.Pos(root.Pos()), false, "the strict URL builder no longer writes looked-up parameter values")
	}
	// (b) anchoring in Valid (both ends) and Match (start)
	match := a.SegmentMatch
	// the validator, the matcher and the per-kind helpers they dispatch to (same package, static calls, boolean result)
	inValid := map[*ssa.Function]bool{}
	var gs []*ssa.Function
	for _, root := range []*ssa.Function{valid, match} {
		for _, g := range builderCluster(c, root) {
			if g.Pkg != root.Pkg && g != root {
				continue
			}
			if root == valid {
				inValid[g] = true
			}
			dup := false
			for _, x := range gs {
				if x == g {
					dup = true
				}
			}
			if !dup {
				gs = append(gs, g)
			}
		}
	}
	for _, g := range gs {
		g := g
		an.AllInstrs(g, func(in ssa.Instruction) {
			call, ok := in.(*ssa.Call)
			if !ok || !findIndexFuncs[an.CalleeName(&call.Call)] {
				return
			}
			input := call.Call.Args[1]
			type need struct {
				name string
				cmp  func(v ssa.Value) bool
				neq  func(v ssa.Value) bool // the same comparison written with !=
			}
			isZero := func(r ssa.Value) bool {
				k, ok := r.(*ssa.Const)
				return ok && k.Value != nil && k.Int64() == 0
			}
			needs := []need{{"loc[0]==0", func(v ssa.Value) bool { return locCmp(v, call, 0, isZero) },
				func(v ssa.Value) bool { return locCmpOp(v, call, 0, isZero, token.NEQ) }}}
			if inValid[g] {
				isLenInput := func(r ssa.Value) bool {
					lc, ok := r.(*ssa.Call)
					if !ok {
						return false
					}
					_, isLen := builtinCall(lc, "len")
					return isLen && (lc.Call.Args[0] == input || c.O.Of(lc.Call.Args[0]).String() == c.O.Of(input).String())
				}
				needs = append(needs, need{"loc[1]==len(input)", func(v ssa.Value) bool { return locCmp(v, call, 1, isLenInput) },
					func(v ssa.Value) bool { return locCmpOp(v, call, 1, isLenInput, token.NEQ) }})
			}
			for _, nd := range needs {
				nd := nd
				target, targetEdge := acceptTargets(g, nd.cmp)
				path := (&an.Query{
					Target:     target,
					TargetEdge: targetEdge,
					Block:      func(t ssa.Instruction) bool { return t == in },
					BlockEdge: func(b *ssa.BasicBlock, succ int) bool {
						cond, onTrue := an.EdgeCond(b, succ)
						if cond == nil {
							return false
						}
						v, neg := stripNot(cond)
						return (nd.cmp(v) && onTrue != neg) || (nd.neq(v) && onTrue == neg)
					},
				}).Search(an.After(in))
				construct := fmt.Sprintf("accept:%s/requires:%s", shortCallee(an.CalleeName(&call.Call)), nd.name)
				o := c.R.Add(rule+"b", c.fk(g), construct, c.pos(in), path == nil, ifelse(path == nil, "every accepting path passed "+nd.name, "a regexp match is accepted without "+nd.name+": the expression is unanchored, so a value with a foreign prefix/suffix passes"))
				if path != nil {
					o.Path = c.P.PathString(path)
				}
			}
		})
	}
}

// ruleStrictReachesValidator is C10.R3.
func ruleStrictReachesValidator(c *Ctx, rule string) {
	c.R.Rule(c.R.Property+"."+rule, 1, "strict mode fails unless the pattern is a live route — also when params is empty")
	f := c.P.MustFunc("mux.(*Router).URL")
	var strictP, patternP *ssa.Parameter
	for _, p := range f.Params[1:] {
		if b, ok := p.Type().Underlying().(*types.Basic); ok {
			if b.Kind() == types.Bool && strictP == nil {
				strictP = p
			}
			if b.Kind() == types.String && patternP == nil {
				patternP = p
			}
		}
	}
	if strictP == nil || patternP == nil {
		an.Fatalf("UNRESOLVED anchor: strict/pattern parameters of %s", c.fk(f))
	}
	// is v the given parameter of Router.URL, or a helper's parameter that receives it at every call site
	var isRootParam func(v ssa.Value, target *ssa.Parameter, depth int) bool
	isRootParam = func(v ssa.Value, target *ssa.Parameter, depth int) bool {
		if v == ssa.Value(target) {
			return true
		}
		if depth > 3 {
			return false
		}
		args := argsOfParam(v)
		if len(args) == 0 {
			return false
		}
		for _, a := range args {
			if !isRootParam(a, target, depth+1) {
				return false
			}
		}
		return true
	}
	assume := func(cond ssa.Value) (bool, bool) {
		v, neg := stripNot(cond)
		if isRootParam(v, strictP, 0) {
			return !neg, true
		}
		if x, k, eq, ok := an.CondAtom(cond); ok {
			// len(pattern) == 0  /  pattern == ""
			if lc, isCall := x.(*ssa.Call); isCall {
				if _, isLen := builtinCall(lc, "len"); isLen && isRootParam(lc.Call.Args[0], patternP, 0) && an.ConstKey(k) == "0" {
					return !eq, true
				}
			}
			if isRootParam(x, patternP, 0) && an.ConstKey(k) == `""` {
				return !eq, true
			}
		}
		return false, false
	}
	path := (&an.Query{
		Assume:  assume,
		Deep:    deepDefault,
		Descend: func(g *ssa.Function) bool { return g != c.A.TreeURL },
		Target: func(in ssa.Instruction) bool {
			r, ok := in.(*ssa.Return)
			return ok && in.Parent() == f && an.IsSuccessReturn(r)
		},
		Block: func(in ssa.Instruction) bool { _, ok := calleeIs(in, c.A.TreeURL); return ok },
	}).Search(an.Entry(f))
	o := c.R.Add(rule, c.fk(f), "strict=true,pattern!=\"\"/success-requires:"+an.FuncKey(c.A.TreeURL), c.P.Pos(f.Pos()), path == nil, ifelse(path == nil, "with strict and a non-empty pattern every successful return went through the tree's URL builder", "strict URL building can succeed without consulting the route table: an unregistered pattern is accepted"))
	if path != nil {
		o.Path = c.P.PathString(path)
	}
	// the domain is prefixed on every path
	domOK := prefixesDomain(c, f, "recv.urlDomain", 0)
	c.R.Add("R4", c.fk(f), "domain-prefixed", c.P.Pos(f.Pos()), domOK, ifelse(domOK, "every successful path writes the configured domain first (or returns a string that begins with it, or it is empty)", "a URL can be returned without the configured domain"))
}

// ruleMissingParamFails is C10.R4.
func ruleMissingParamFails(c *Ctx, rule string) {
	c.R.Rule(c.R.Property+"."+rule, 4, "URL building fails iff a parameter is missing; a value is followed by its segment's suffix")
	for _, f := range urlBuilders(c) {
		loops := rangeLoops(f)
		an.AllInstrs(f, func(in ssa.Instruction) {
			lk, ok := in.(*ssa.Lookup)
			if !ok || !lk.CommaOk {
				return
			}
			if _, isParam := lk.X.(*ssa.Parameter); !isParam {
				return
			}
			// not-found edge must lead only to error returns
			notFound := func(b *ssa.BasicBlock, succ int) bool {
				return !commaOkEdge(b, succ, func(m, k ssa.Value) bool { return m == lk.X && k == lk.Index }) && isCommaOkIf(b, lk)
			}
			var start *an.Point
			for _, b := range f.Blocks {
				for si := range b.Succs {
					if notFound(b, si) {
						start = &an.Point{B: b.Succs[si], I: 0}
					}
				}
			}
			if start == nil {
				c.R.Add(rule, c.fk(f), "param-lookup/not-found-edge", c.pos(in), false, "the presence of the parameter is never tested")
				return
			}
			var back func(*ssa.BasicBlock, int) bool
			for _, l := range loops {
				back = loopBackEdge(l)
			}
			path := (&an.Query{
				Target: func(t ssa.Instruction) bool {
					if r, ok := t.(*ssa.Return); ok && an.IsSuccessReturn(r) {
						return true
					}
					_, w := isBufWrite(t)
					return w
				},
				TargetEdge: back,
			}).Search(*start)
			o := c.R.Add(rule, c.fk(f), "param-lookup/missing-is-error", c.pos(in), path == nil, ifelse(path == nil, "the not-found edge only reaches error returns", "a missing parameter does not make URL building fail"))
			if path != nil {
				o.Path = c.P.PathString(path)
			}
			// value then suffix
			val := ssa.Value(nil)
			for _, r := range *lk.Referrers() {
				if ex, ok := r.(*ssa.Extract); ok && ex.Index == 0 {
					val = ex
				}
			}
			segAP := strings.TrimSuffix(an.AP(lk.Index), ".Name")
			an.AllInstrs(f, func(w ssa.Instruction) {
				call, ok := isBufWrite(w)
				if !ok || len(call.Args) < 2 || call.Args[1] != val {
					return
				}
				var back2 func(*ssa.BasicBlock, int) bool
				for _, l := range loops {
					back2 = loopBackEdge(l)
				}
				p2 := (&an.Query{
					TargetEdge: back2,
					Block: func(t ssa.Instruction) bool {
						c2, ok := isBufWrite(t)
						return ok && len(c2.Args) > 1 && an.AP(c2.Args[1]) == segAP+".Suffix"
					},
				}).Search(an.After(w))
				c.R.Add(rule, c.fk(f), "write:value-then:"+segAP+".Suffix", c.pos(w), p2 == nil, ifelse(p2 == nil, "the value is followed by the segment's suffix before the next segment", "a parameter value is emitted without the literal suffix of its segment"))
			})
		})
	}
}

func isCommaOkIf(b *ssa.BasicBlock, lk *ssa.Lookup) bool {
	if len(b.Instrs) == 0 {
		return false
	}
	ifi, ok := b.Instrs[len(b.Instrs)-1].(*ssa.If)
	if !ok {
		return false
	}
	v, _ := stripNot(ifi.Cond)
	ex, ok := v.(*ssa.Extract)
	return ok && ex.Index == 1 && ex.Tuple == ssa.Value(lk)
}

// ruleNameCleaned is C10.R5.
func ruleNameCleaned(c *Ctx, rule string) {
	a := c.A
	c.R.Rule(c.R.Property+"."+rule, 1, "a leading '-' in the name is ignored: the flag is stripped wherever a parameter name is set")
	root := c.P.MustFunc("syntax.(*Interceptors).NewSegment")
	// cleaners by role: a function that stores Name[1:] back into the Name of a segment it received (cleanName), or a
	// pure function that returns its string parameter without its first byte (trimIgnorePrefix-style)
	cleanerOn := map[*ssa.Function]int{} // function -> index of the segment parameter it cleans
	pureTrim := map[*ssa.Function]bool{}
	isOwnCleanStore := map[ssa.Instruction]bool{}
	for _, g := range c.libFuncs() {
		an.AllInstrs(g, func(in ssa.Instruction) {
			base, field, val, ok := fieldStore(in, a.SegmentT)
			if !ok || field != "Name" {
				return
			}
			sl, isSl := val.(*ssa.Slice)
			if !isSl || sl.Low == nil {
				return
			}
			if k, isC := sl.Low.(*ssa.Const); !isC || k.Value == nil || k.Int64() != 1 {
				return
			}
			if an.AP(sl.X) != base+".Name" {
				return
			}
			for i, p := range g.Params {
				if an.AP(p) == base {
					cleanerOn[g] = i
					isOwnCleanStore[in] = true
				}
			}
		})
		if g.Signature.Params().Len() >= 1 && g.Signature.Results().Len() >= 1 {
			isTrim := func(v ssa.Value) bool {
				sl, ok := v.(*ssa.Slice)
				if !ok || sl.Low == nil {
					return false
				}
				k, isC := sl.Low.(*ssa.Const)
				if !isC || k.Value == nil || k.Int64() != 1 {
					return false
				}
				_, isPar := sl.X.(*ssa.Parameter)
				return isPar
			}
			for _, r := range an.Returns(g) {
				for _, res := range r.Results {
					if isTrim(res) {
						pureTrim[g] = true
					}
					// a named result assigned on the flagged path: phi(parameter, parameter[1:])
					if phi, isPhi := res.(*ssa.Phi); isPhi {
						for _, e := range phi.Edges {
							if isTrim(e) {
								pureTrim[g] = true
							}
						}
					}
				}
			}
		}
	}
	cleanedValue := func(v ssa.Value) bool {
		if ex, ok := v.(*ssa.Extract); ok {
			v = ex.Tuple
		}
		call, ok := v.(*ssa.Call)
		if !ok {
			return false
		}
		g := an.StaticCallee(&call.Call)
		return g != nil && pureTrim[g]
	}
	cleansAfter := func(from ssa.Instruction, base string, self ssa.Instruction) []an.Point {
		return (&an.Query{
			Deep: deepDefault,
			Target: func(t ssa.Instruction) bool {
				r, ok := t.(*ssa.Return)
				return ok && t.Parent() == from.Parent() && an.IsSuccessReturn(r)
			},
			Block: func(t ssa.Instruction) bool {
				if t.Parent() != from.Parent() {
					return false
				}
				if call := an.CallOf(t); call != nil {
					if g := an.StaticCallee(call); g != nil {
						if i, ok := cleanerOn[g]; ok {
							args := an.CallArgs(call)
							if i < len(args) && an.AP(args[i]) == base {
								return true
							}
						}
					}
				}
				// a later store to Name supersedes this one
				if b2, f2, _, ok := fieldStore(t, a.SegmentT); ok && f2 == "Name" && b2 == base && t != self {
					return true
				}
				return false
			},
		}).Search(an.After(from))
	}
	for _, f := range builderCluster(c, root) {
		f := f
		an.AllInstrs(f, func(in ssa.Instruction) {
			base, field, val, ok := fieldStore(in, a.SegmentT)
			if !ok || field != "Name" || isOwnCleanStore[in] {
				return
			}
			if cleanedValue(val) {
				c.R.Add(rule, c.fk(f), "store:Name/then:cleanName", c.pos(in), true, "the stored name went through the '-' trimmer")
				return
			}
			path := cleansAfter(in, base, in)
			good := path == nil
			if !good {
				// a helper that stores into the segment it received: its callers clean afterwards
				pi := -1
				for i, p := range f.Params {
					if an.AP(p) == base {
						pi = i
					}
				}
				if pi >= 0 && f != root {
					n, all := 0, true
					for _, h := range c.libFuncs() {
						an.AllInstrs(h, func(t ssa.Instruction) {
							call, isCall := t.(*ssa.Call)
							if !isCall || an.StaticCallee(&call.Call) != f {
								return
							}
							n++
							args := an.CallArgs(&call.Call)
							if pi >= len(args) || cleansAfter(t, an.AP(args[pi]), nil) != nil {
								all = false
							}
						})
					}
					good = n > 0 && all
				}
			}
			o := c.R.Add(rule, c.fk(f), "store:Name/then:cleanName", c.pos(in), good, ifelse(good, "every successful path strips the '-' flag after setting the name", "a parameter name can keep its '-' flag: URL building and capture then use a different key than documented"))
			if !good && path != nil {
				o.Path = c.P.PathString(path)
			}
		})
	}
}

// ruleStrictLiveness is C10.R3b: the tree's URL builder succeeds only for a *live* route. The node found under the
// pattern may be an interior node that exists only because two routes share a prefix (or whose handlers were all
// removed by Prefix.Clean of its children's siblings): every successful return lies behind the non-nil test of the
// looked-up node and behind `len(node.handlers) > 0` (D26).
func ruleStrictLiveness(c *Ctx, rule string) {
	a := c.A
	c.R.Rule(c.R.Property+"."+rule, 1, "strict URL building fails unless the pattern is a live route: the node found has handlers")
	f := a.TreeURL
	var lookups []*ssa.Call
	an.AllInstrs(f, func(in ssa.Instruction) {
		call, ok := in.(*ssa.Call)
		if !ok {
			return
		}
		g := an.StaticCallee(&call.Call)
		if g == nil || !an.InModule(g) || !isPtrToNamed(call.Type(), a.NodeT) {
			return
		}
		lookups = append(lookups, call)
	})
	if len(lookups) == 0 {
		c.R.Add(rule, c.fk(f), "lookup/exists", c.P.Pos(f.Pos()), false, "the tree's URL builder no longer looks the pattern up in the route table")
		return
	}
	for _, lk := range lookups {
		node := an.AP(lk)
		path := (&an.Query{
			Target: func(in ssa.Instruction) bool {
				r, ok := in.(*ssa.Return)
				return ok && in.Parent() == f && an.IsSuccessReturn(r)
			},
			BlockEdge: func(b *ssa.BasicBlock, succ int) bool { return lenPositiveTermEdge(c, b, succ, node+"."+a.FHandlers) },
		}).Search(an.After(lk))
		o := c.R.Add(rule, c.fk(f), "found-node/has-handlers", c.pos(lk), path == nil, ifelse(path == nil, "every successful return is behind len(handlers) > 0 of the node found", "the URL of a pattern that is only a shared prefix of registered routes (an interior node without handlers) is built successfully in strict mode: not a live route"))
		if path != nil {
			o.Path = c.P.PathString(path)
		}
	}
}

// prefixesDomain: every successful return of f yields a string that begins with the value whose access path is
// domAP — the builder received it first, the returned expression is domain + …, the domain is known to be empty on
// that path, or the result is that of a module helper which does the same with the parameter the domain is handed to.
func prefixesDomain(c *Ctx, f *ssa.Function, domAP string, depth int) bool {
	if depth > 2 || len(f.Blocks) == 0 {
		return false
	}
	wrote := func(in ssa.Instruction) bool {
		call, ok := isBufWrite(in)
		return ok && len(call.Args) > 1 && an.AP(call.Args[1]) == domAP
	}
	emptyEdge := func(b *ssa.BasicBlock, succ int) bool {
		cond, onTrue := an.EdgeCond(b, succ)
		if cond == nil {
			return false
		}
		x, k, eq, ok := an.CondAtom(cond)
		return ok && an.AP(x) == domAP && an.ConstKey(k) == `""` && eq == onTrue
	}
	var begins func(v ssa.Value, d int) bool
	begins = func(v ssa.Value, d int) bool {
		if d > 3 {
			return false
		}
		if an.AP(v) == domAP {
			return true
		}
		switch x := v.(type) {
		case *ssa.BinOp:
			return x.Op == token.ADD && begins(x.X, d+1)
		case *ssa.Phi:
			for _, e := range x.Edges {
				if !begins(e, d+1) {
					return false
				}
			}
			return len(x.Edges) > 0
		case *ssa.Extract:
			if call, ok := x.Tuple.(*ssa.Call); ok && x.Index == 0 {
				return beginsCall(c, call, domAP, depth)
			}
		case *ssa.Call:
			return beginsCall(c, x, domAP, depth)
		}
		return false
	}
	for _, r := range an.Returns(f) {
		r := r
		if !an.IsSuccessReturn(r) || len(r.Results) == 0 {
			continue
		}
		if begins(an.ReturnValue(r, 0), 0) {
			continue
		}
		path := (&an.Query{
			Target:    func(in ssa.Instruction) bool { return in == ssa.Instruction(r) },
			Block:     wrote,
			BlockEdge: emptyEdge,
		}).Search(an.Entry(f))
		if path != nil {
			return false
		}
	}
	return true
}

func beginsCall(c *Ctx, call *ssa.Call, domAP string, depth int) bool {
	g := an.StaticCallee(&call.Call)
	if g == nil || !an.InModule(g) {
		return false
	}
	for i, a := range an.CallArgs(&call.Call) {
		if an.AP(a) == domAP && i < len(g.Params) {
			return prefixesDomain(c, an.Origin(g), an.AP(g.Params[i]), depth+1)
		}
	}
	return false
}
