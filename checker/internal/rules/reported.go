package rules

import (
	"fmt"
	"strings"

	"golang.org/x/tools/go/ssa"

	"muxlint/internal/an"
)

// reported.go — C01.R13: what the user's CallFunc is told is what the tree found.
//
// In the function that serves a request with a router (the one that calls Tree.Handler): the node stored into the
// context is result 0 of that very lookup, stored on every path from the lookup to the call of the user's CallFunc;
// the CallFunc receives the context the lookup filled and result 1 of the lookup as the handler. The accessors the
// user reads (Node, RouterName) return the fields their setters (SetNode, SetRouterName) store.
func ruleReportedRoute(c *Ctx, rule string) {
	a := c.A
	c.R.Rule(c.R.Property+"."+rule, 5, "the route, handler and context handed to the user's CallFunc are the ones the lookup produced")
	f := c.P.MustFunc("mux.(*Router).serveContext")
	var hcall *ssa.Call
	cluster := builderCluster(c, f)
	for _, fn := range cluster {
		an.AllInstrs(fn, func(in ssa.Instruction) {
			if call, ok := in.(*ssa.Call); ok {
				if g := an.StaticCallee(&call.Call); g != nil && an.Origin(g) == an.Origin(a.TreeHandler) {
					hcall = call
				}
			}
		})
	}
	if hcall == nil {
		an.Fatalf("UNRESOLVED anchor: Tree.Handler call below %s", c.fk(f))
	}
	hf := hcall.Parent()
	result := func(v ssa.Value, idx int) bool {
		ex, ok := v.(*ssa.Extract)
		return ok && ex.Tuple == ssa.Value(hcall) && ex.Index == idx
	}
	isSetNode := func(in ssa.Instruction) (*ssa.CallCommon, bool) {
		call := an.CallOf(in)
		if call == nil {
			return nil, false
		}
		if g := an.StaticCallee(call); g != nil && an.FuncKey(g) == "types.(*Context).SetNode" {
			return call, true
		}
		return nil, false
	}
	isUserCall := func(in ssa.Instruction) (*ssa.CallCommon, bool) {
		call, ok := in.(*ssa.Call)
		if !ok || !strings.HasPrefix(an.CalleeName(&call.Call), "dynamic:recv.call") {
			return nil, false
		}
		return &call.Call, true
	}
	nSet := 0
	an.AllInstrs(hf, func(in ssa.Instruction) {
		call, ok := isSetNode(in)
		if !ok {
			return
		}
		nSet++
		args := an.CallArgs(call)
		good := len(args) == 2 && args[0] == hcall.Call.Args[1] && (result(args[1], 0) || isBoxOf(args[1], func(v ssa.Value) bool { return result(v, 0) }))
		c.R.Add(rule, c.fk(hf), "context-node=lookup-result", c.pos(in), good, ifelse(good, "the node stored into the context is the one the lookup returned", "the node reported to the handler is "+c.O.Of(args[len(args)-1]).String()+", not the node the lookup returned"))
	})
	path := (&an.Query{
		Target: func(t ssa.Instruction) bool { _, ok := isUserCall(t); return ok },
		Block:  func(t ssa.Instruction) bool { _, ok := isSetNode(t); return ok },
	}).Search(an.After(hcall))
	o := c.R.Add(rule, c.fk(hf), "context-node/stored-before-the-user-call", c.P.Pos(hf.Pos()), path == nil && nSet > 0, ifelse(path == nil && nSet > 0, "every path from the lookup to the CallFunc stores the node first", "the user's CallFunc can run before the matched node is stored into the context: Route.Node() is nil or that of an earlier request"))
	if path != nil {
		o.Path = c.P.PathString(path)
	}
	nCall := 0
	an.AllInstrs(hf, func(in ssa.Instruction) {
		call, ok := isUserCall(in)
		if !ok {
			return
		}
		nCall++
		args := call.Args
		good := len(args) == 4 && isBoxOf(args[2], func(v ssa.Value) bool { return v == hcall.Call.Args[1] }) && result(args[3], 1)
		c.R.Add(rule, c.fk(hf), "user-call(ctx,handler)=lookup", c.pos(in), good, ifelse(good, "the CallFunc receives the context the lookup filled and the handler it returned", "the CallFunc does not receive the looked-up handler with the context of the lookup"))
	})
	if nCall == 0 {
		c.R.Add(rule, c.fk(hf), "user-call(ctx,handler)=lookup", c.P.Pos(hf.Pos()), false, "no call of the user's CallFunc after the lookup")
	}
	// the node Tree.Handler reports is what the search returned (or the root for "*" / ""), nothing remembered on the side
	th := a.TreeHandler
	fam := scanners(c)
	var nodeLeafOK func(v ssa.Value, depth int) (bool, string)
	nodeLeafOK = func(v ssa.Value, depth int) (bool, string) {
		if depth > 6 {
			return false, "…"
		}
		switch x := v.(type) {
		case *ssa.MakeInterface:
			return nodeLeafOK(x.X, depth+1)
		case *ssa.ChangeInterface:
			return nodeLeafOK(x.X, depth+1)
		case *ssa.Const:
			return x.Value == nil, "constant"
		case *ssa.Phi:
			for _, e := range x.Edges {
				if ok, why := nodeLeafOK(e, depth+1); !ok {
					return false, why
				}
			}
			return true, ""
		case *ssa.Call:
			if g := an.StaticCallee(&x.Call); g != nil && fam[an.Origin(g)] {
				return true, ""
			}
			return false, c.O.Of(v).String()
		case *ssa.UnOp:
			if base, isRoot := fieldLoadOf(v, a.TreeT, a.FRootNode); isRoot && base == "recv" {
				return true, ""
			}
			return false, c.O.Of(v).String()
		}
		return false, c.O.Of(v).String()
	}
	for i, r := range an.Returns(th) {
		if len(r.Results) == 0 {
			continue
		}
		ok, why := nodeLeafOK(an.ReturnValue(r, 0), 0)
		c.R.Add(rule, c.fk(th), fmt.Sprintf("return#%d/node=search-result-or-root", i), c.pos(r), ok, ifelse(ok, "the node reported is the value the depth-first search returned (or the root node)", "the node reported is "+why+", not the value the search returned: a node remembered while the search went on has lost the captures of its path when the search backtracked"))
	}
	// accessor pairs
	for _, pr := range []struct{ set, get string }{{"types.(*Context).SetNode", "types.(*Context).Node"}, {"types.(*Context).SetRouterName", "types.(*Context).RouterName"}} {
		set, get := c.P.MustFunc(pr.set), c.P.MustFunc(pr.get)
		stored := ""
		an.AllInstrs(set, func(in ssa.Instruction) {
			if st, ok := in.(*ssa.Store); ok && len(set.Params) == 2 && st.Val == ssa.Value(set.Params[1]) {
				if ap := an.AP(st.Addr); strings.HasPrefix(ap, "recv.") {
					stored = strings.TrimPrefix(ap, "recv.") // possibly a path into a nested struct value
				}
			}
		})
		good := stored != ""
		got := ""
		for _, r := range an.Returns(get) {
			got = an.AP(r.Results[0])
			if got != "recv."+stored {
				good = false
			}
		}
		c.R.Add(rule, pr.get, "returns-what:"+strings.TrimPrefix(pr.set, "types.(*Context).")+"-stored", c.P.Pos(get.Pos()), good, ifelse(good, "returns recv."+stored, "the accessor returns "+got+", the setter stores into "+ifelse(stored == "", "no field", "recv."+stored)))
	}
}

// isBoxOf: v is pred, possibly converted to an interface.
func isBoxOf(v ssa.Value, pred func(ssa.Value) bool) bool {
	for i := 0; i < 3; i++ {
		if pred(v) {
			return true
		}
		switch x := v.(type) {
		case *ssa.MakeInterface:
			v = x.X
		case *ssa.ChangeInterface:
			v = x.X
		case *ssa.ChangeType:
			v = x.X
		default:
			return false
		}
	}
	return pred(v)
}
