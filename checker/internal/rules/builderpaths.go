package rules

import (
	"go/constant"
	"go/types"

	"golang.org/x/tools/go/ssa"

	"muxlint/internal/an"
)

// A text assembled in a local strings.Builder is the same construction as a chain of `+`: the pieces written, in the
// order of the path that wrote them. builderPaths lists, for the String() call of a local builder, the sequences of
// pieces written on each acyclic path from the builder's declaration to that call. It answers ok=false when the
// builder is not a local of the function, is handed to anything but its own writing methods, or is written in a loop
// — the caller then treats the text as unknown.

type builderPiece struct {
	lit   string    // a constant byte, rune or string
	isLit bool      //
	v     ssa.Value // a string value otherwise
	in    ssa.Instruction
}

func builderOf(call *ssa.Call) (*ssa.Alloc, bool) {
	if an.CalleeName(&call.Call) != "strings.(*Builder).String" || len(call.Call.Args) != 1 {
		return nil, false
	}
	al, ok := call.Call.Args[0].(*ssa.Alloc)
	return al, ok
}

func builderPaths(str *ssa.Call) (paths [][]builderPiece, ok bool) {
	al, ok := builderOf(str)
	if !ok || al.Referrers() == nil {
		return nil, false
	}
	writes := map[ssa.Instruction]builderPiece{}
	for _, ref := range *al.Referrers() {
		cc := an.CallOf(ref)
		if cc == nil || len(cc.Args) == 0 || cc.Args[0] != ssa.Value(al) {
			if _, isDbg := ref.(*ssa.DebugRef); isDbg {
				continue
			}
			return nil, false
		}
		if _, isDefer := ref.(*ssa.Defer); isDefer {
			return nil, false
		}
		if _, isGo := ref.(*ssa.Go); isGo {
			return nil, false
		}
		switch an.CalleeName(cc) {
		case "strings.(*Builder).String", "strings.(*Builder).Grow", "strings.(*Builder).Len", "strings.(*Builder).Cap":
		case "strings.(*Builder).WriteString":
			if s, isS := strConst(cc.Args[1]); isS {
				writes[ref] = builderPiece{lit: s, isLit: true, in: ref}
			} else {
				writes[ref] = builderPiece{v: cc.Args[1], in: ref}
			}
		case "strings.(*Builder).WriteByte", "strings.(*Builder).WriteRune":
			k, isK := cc.Args[1].(*ssa.Const)
			if !isK || k.Value == nil || k.Value.Kind() != constant.Int {
				return nil, false
			}
			writes[ref] = builderPiece{lit: string(rune(k.Int64())), isLit: true, in: ref}
		default:
			return nil, false // Reset, Write([]byte), handed to a formatter, …
		}
	}
	// no write inside a loop
	for w := range writes {
		b := w.Block()
		seen := map[*ssa.BasicBlock]bool{}
		stack := append([]*ssa.BasicBlock{}, b.Succs...)
		for len(stack) > 0 {
			x := stack[len(stack)-1]
			stack = stack[:len(stack)-1]
			if x == b {
				return nil, false
			}
			if seen[x] {
				continue
			}
			seen[x] = true
			stack = append(stack, x.Succs...)
		}
	}
	target := str.Block()
	onPath := map[*ssa.BasicBlock]bool{}
	var walk func(b *ssa.BasicBlock, acc []builderPiece) bool
	walk = func(b *ssa.BasicBlock, acc []builderPiece) bool {
		if onPath[b] {
			return true // a back edge: the blocks of a loop hold no write (above), going round adds nothing
		}
		onPath[b] = true
		defer func() { onPath[b] = false }()
		for _, in := range b.Instrs {
			if in == ssa.Instruction(str) {
				paths = append(paths, append([]builderPiece{}, acc...))
				return len(paths) <= 256
			}
			if p, isW := writes[in]; isW {
				acc = append(acc, p)
			}
		}
		if b == target {
			return true
		}
		for _, s := range b.Succs {
			if !walk(s, acc) {
				return false
			}
		}
		return true
	}
	if !walk(al.Block(), nil) || len(paths) == 0 {
		return nil, false
	}
	return paths, true
}

// sprintfPieces reads fmt.Sprintf with a constant format made of literal text, %s / %v verbs and %% as the
// concatenation it is, when every operand is a string. Anything else (flags, widths, %q, %d, a non-string operand, a
// computed format) is unknown text.
func sprintfPieces(call *ssa.Call) ([]builderPiece, bool) {
	if an.CalleeName(&call.Call) != "fmt.Sprintf" || len(call.Call.Args) != 2 {
		return nil, false
	}
	format, ok := strConst(call.Call.Args[0])
	if !ok {
		return nil, false
	}
	var operands []ssa.Value
	switch va := call.Call.Args[1].(type) {
	case *ssa.Const:
		if va.Value != nil {
			return nil, false
		}
	case *ssa.Slice:
		al, isAl := va.X.(*ssa.Alloc)
		if !isAl || al.Referrers() == nil || va.Low != nil || va.High != nil {
			return nil, false
		}
		byIdx := map[int64]ssa.Value{}
		for _, ref := range *al.Referrers() {
			switch r := ref.(type) {
			case *ssa.Slice, *ssa.DebugRef:
			case *ssa.IndexAddr:
				k, isK := r.Index.(*ssa.Const)
				if !isK || r.Referrers() == nil {
					return nil, false
				}
				for _, rr := range *r.Referrers() {
					st, isSt := rr.(*ssa.Store)
					if !isSt || st.Addr != ssa.Value(r) {
						return nil, false
					}
					mi, isMI := st.Val.(*ssa.MakeInterface)
					if !isMI {
						return nil, false
					}
					if b, isB := mi.X.Type().Underlying().(*types.Basic); !isB || b.Info()&types.IsString == 0 {
						return nil, false
					}
					if _, dup := byIdx[k.Int64()]; dup {
						return nil, false
					}
					byIdx[k.Int64()] = mi.X
				}
			default:
				return nil, false
			}
		}
		for i := int64(0); i < int64(len(byIdx)); i++ {
			v, has := byIdx[i]
			if !has {
				return nil, false
			}
			operands = append(operands, v)
		}
	default:
		return nil, false
	}
	var out []builderPiece
	lit := ""
	next := 0
	for i := 0; i < len(format); i++ {
		if format[i] != '%' {
			lit += string(format[i])
			continue
		}
		if i+1 >= len(format) {
			return nil, false
		}
		i++
		switch format[i] {
		case '%':
			lit += "%"
		case 's', 'v':
			if next >= len(operands) {
				return nil, false
			}
			if lit != "" {
				out = append(out, builderPiece{lit: lit, isLit: true, in: call})
				lit = ""
			}
			if s, isS := strConst(operands[next]); isS {
				out = append(out, builderPiece{lit: s, isLit: true, in: call})
			} else {
				out = append(out, builderPiece{v: operands[next], in: call})
			}
			next++
		default:
			return nil, false
		}
	}
	if next != len(operands) {
		return nil, false
	}
	if lit != "" {
		out = append(out, builderPiece{lit: lit, isLit: true, in: call})
	}
	return out, true
}

// textPieces: the constructions read as a concatenation besides `+` — a local builder, a plain Sprintf.
func textPieces(call *ssa.Call) ([][]builderPiece, bool) {
	if p, ok := builderPaths(call); ok {
		return p, true
	}
	if p, ok := sprintfPieces(call); ok {
		return [][]builderPiece{p}, true
	}
	return nil, false
}
