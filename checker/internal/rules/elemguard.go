package rules

import (
	"go/constant"
	"go/token"

	"golang.org/x/tools/go/ssa"

	"muxlint/internal/an"
)

// elemReaches decides whether there is a path from the definition of value k
// to the instruction `use` that is consistent with the query produced by
// mk(k) (assumed equalities, blocked guard edges).  When k is the element of
// a range loop over a slice S and an earlier range loop over the same S
// validates every element (FORALL: no element for which mk holds reaches the
// loop's back edge or leaves the loop other than through its header), the
// validation of that loop is inherited.  Returns the witness path.
func (c *Ctx) elemReaches(k ssa.Value, use ssa.Instruction, mk func(k ssa.Value) *an.Query) (string, bool) {
	f := use.Parent()
	start := an.Entry(f)
	var def ssa.Instruction
	if in, ok := k.(ssa.Instruction); ok && in.Parent() == f {
		if _, _, isElem := an.RangeLoopOf(k); isElem {
			def = in
			start = an.After(in)
		}
	}
	q := mk(k)
	q.Target = func(in ssa.Instruction) bool { return in == use }
	prevBlock := q.Block
	q.Block = func(in ssa.Instruction) bool {
		return (def != nil && in == def) || (prevBlock != nil && prevBlock(in))
	}
	path := q.Search(start)
	if path == nil {
		return "", false
	}
	if def != nil {
		hdr2, sl, _ := an.RangeLoopOf(k)
		for _, b := range f.Blocks {
			ifi, ok := b.Instrs[len(b.Instrs)-1].(*ssa.If)
			if !ok || ifi == hdr2 {
				continue
			}
			// candidate validating loop over the same slice
			var k1s []ssa.Instruction
			an.AllInstrs(f, func(in ssa.Instruction) {
				v, ok := in.(ssa.Value)
				if !ok {
					return
				}
				h, s, isElem := an.RangeLoopOf(v)
				if isElem && h == ifi && an.AP(s) == an.AP(sl) {
					k1s = append(k1s, in)
				}
			})
			if len(k1s) == 0 {
				continue
			}
			// L1 completes before k is defined: every path entry -> def(k) leaves L1 through its header
			dom := (&an.Query{
				Target:    func(in ssa.Instruction) bool { return in == def },
				BlockEdge: func(bb *ssa.BasicBlock, succ int) bool { return bb == b && succ == 1 },
			}).Search(an.Entry(f)) == nil
			if !dom {
				continue
			}
			validated := true
			for _, k1 := range k1s {
				// no break: the body reaches def(k) only through the header's exit edge
				nb := (&an.Query{
					Target:    func(in ssa.Instruction) bool { return in == def },
					Block:     func(in ssa.Instruction) bool { return in == k1 },
					BlockEdge: func(bb *ssa.BasicBlock, succ int) bool { return bb == b && succ == 1 },
				}).Search(an.After(k1)) == nil
				if !nb {
					validated = false
					break
				}
				q1 := mk(k1.(ssa.Value))
				q1.Target = func(in ssa.Instruction) bool { return in == k1 || in == def }
				if q1.Search(an.After(k1)) != nil {
					validated = false
					break
				}
			}
			if validated {
				return "", false
			}
		}
	}
	// validation done by the caller: the slice is a parameter, and at every call site a validating function ran
	// on the same slice before, with its error checked
	if def != nil {
		_, sl, _ := an.RangeLoopOf(k)
		if c.validatedByCallers(f, sl, mk) {
			return "", false
		}
	}
	return c.P.PathString(path), true
}

// validatedByCallers: sl is a parameter of f; at every static call site of f, every path from the caller's entry
// passes a call V(…arg…) (same argument) whose error is checked before the call of f, and V rejects every element
// for which mk holds (no such element reaches V's loop back edge or a successful return).
func (c *Ctx) validatedByCallers(f *ssa.Function, sl ssa.Value, mk func(k ssa.Value) *an.Query) bool {
	par, ok := sl.(*ssa.Parameter)
	if !ok {
		return false
	}
	idx := -1
	for i, p := range f.Params {
		if p == par {
			idx = i
		}
	}
	sites := callSitesOf[an.Origin(f)]
	if idx < 0 || len(sites) == 0 {
		return false
	}
	for _, site := range sites {
		args := an.CallArgs(site)
		if idx >= len(args) {
			return false
		}
		argAP := an.AP(args[idx])
		var siteInstr ssa.Instruction
		caller := siteParent(site)
		if caller == nil {
			return false
		}
		an.AllInstrs(caller, func(in ssa.Instruction) {
			if an.CallOf(in) == site {
				siteInstr = in
			}
		})
		if siteInstr == nil {
			return false
		}
		// candidate validators called in the caller with the same slice argument
		okSite := false
		an.AllInstrs(caller, func(in ssa.Instruction) {
			vcall, isCall := in.(*ssa.Call)
			if !isCall || okSite || in == siteInstr {
				return
			}
			v := an.StaticCallee(&vcall.Call)
			if v == nil || !an.InModule(v) || an.ErrorResultIndex(v) < 0 {
				return
			}
			vidx := -1
			for i, a := range an.CallArgs(&vcall.Call) {
				if an.AP(a) == argAP {
					vidx = i
				}
			}
			if vidx < 0 || vidx >= len(v.Params) {
				return
			}
			// every path entry -> site passes the err == nil edge of this validator call
			errVal := ssa.Value(vcall)
			passes := (&an.Query{
				Target: func(t ssa.Instruction) bool { return t == siteInstr },
				BlockEdge: func(b *ssa.BasicBlock, succ int) bool {
					cond, onTrue := an.EdgeCond(b, succ)
					if cond == nil {
						return false
					}
					x, kc, eq, ok := an.CondAtom(cond)
					return ok && kc.Value == nil && x == errVal && eq == onTrue
				},
			}).Search(an.Entry(caller)) == nil
			if !passes {
				return
			}
			// V rejects every element for which mk holds
			vpar := v.Params[vidx]
			good := false
			for _, l := range rangeLoops(v) {
				if l.slice != ssa.Value(vpar) {
					continue
				}
				good = len(l.elems) > 0
				for _, e := range l.elems {
					q := mk(e.(ssa.Value))
					q.Target = func(t ssa.Instruction) bool {
						if t == e {
							return true
						}
						r, ok := t.(*ssa.Return)
						return ok && an.IsSuccessReturn(r)
					}
					if q.Search(an.After(e)) != nil {
						good = false
					}
					// no break out of the loop other than through the header or a return
				}
			}
			if good {
				okSite = true
			}
		})
		if !okSite {
			return false
		}
	}
	return true
}

func siteParent(call *ssa.CallCommon) *ssa.Function {
	for f, sites := range callSitesByCaller {
		for _, s := range sites {
			if s == call {
				return f
			}
		}
	}
	return nil
}

// assumeEq builds a query factory assuming k == the string constant s.
func assumeEq(s string) func(k ssa.Value) *an.Query {
	return func(k ssa.Value) *an.Query {
		return &an.Query{Facts: true, InitEq: map[string]constant.Value{an.ValueKey(k): constOf(s)}}
	}
}

// isNot reports whether cond is the negation wrapper; helper to strip NOTs.
func stripNot(v ssa.Value) (ssa.Value, bool) {
	neg := false
	for {
		u, ok := v.(*ssa.UnOp)
		if !ok || u.Op != token.NOT {
			return v, neg
		}
		neg = !neg
		v = u.X
	}
}
