package rules

import (
	"go/constant"
	"go/token"

	"golang.org/x/tools/go/ssa"

	"muxlint/internal/an"
)

// elemReaches decides whether there is a path from the definition of value k
// to the instruction `use` that is consistent with the query produced by
// mk(k) (assumed equalities, blocked guard edges).  When k is the element of
// a range loop over a slice S and an earlier range loop over the same S
// validates every element (FORALL: no element for which mk holds reaches the
// loop's back edge or leaves the loop other than through its header), the
// validation of that loop is inherited.  Returns the witness path.
func (c *Ctx) elemReaches(k ssa.Value, use ssa.Instruction, mk func(k ssa.Value) *an.Query) (string, bool) {
	f := use.Parent()
	start := an.Entry(f)
	var def ssa.Instruction
	if in, ok := k.(ssa.Instruction); ok && in.Parent() == f {
		if _, _, isElem := an.RangeLoopOf(k); isElem {
			def = in
			start = an.After(in)
		}
	}
	q := mk(k)
	q.Target = func(in ssa.Instruction) bool { return in == use }
	prevBlock := q.Block
	q.Block = func(in ssa.Instruction) bool {
		return (def != nil && in == def) || (prevBlock != nil && prevBlock(in))
	}
	path := q.Search(start)
	if path == nil {
		return "", false
	}
	if def != nil {
		hdr2, sl, _ := an.RangeLoopOf(k)
		for _, b := range f.Blocks {
			ifi, ok := b.Instrs[len(b.Instrs)-1].(*ssa.If)
			if !ok || ifi == hdr2 {
				continue
			}
			// candidate validating loop over the same slice
			var k1s []ssa.Instruction
			an.AllInstrs(f, func(in ssa.Instruction) {
				v, ok := in.(ssa.Value)
				if !ok {
					return
				}
				h, s, isElem := an.RangeLoopOf(v)
				if isElem && h == ifi && an.AP(s) == an.AP(sl) {
					k1s = append(k1s, in)
				}
			})
			if len(k1s) == 0 {
				continue
			}
			// L1 completes before k is defined: every path entry -> def(k) leaves L1 through its header
			dom := (&an.Query{
				Target:    func(in ssa.Instruction) bool { return in == def },
				BlockEdge: func(bb *ssa.BasicBlock, succ int) bool { return bb == b && succ == 1 },
			}).Search(an.Entry(f)) == nil
			if !dom {
				continue
			}
			validated := true
			for _, k1 := range k1s {
				// no break: the body reaches def(k) only through the header's exit edge
				nb := (&an.Query{
					Target:    func(in ssa.Instruction) bool { return in == def },
					Block:     func(in ssa.Instruction) bool { return in == k1 },
					BlockEdge: func(bb *ssa.BasicBlock, succ int) bool { return bb == b && succ == 1 },
				}).Search(an.After(k1)) == nil
				if !nb {
					validated = false
					break
				}
				q1 := mk(k1.(ssa.Value))
				q1.Target = func(in ssa.Instruction) bool { return in == k1 || in == def }
				if q1.Search(an.After(k1)) != nil {
					validated = false
					break
				}
			}
			if validated {
				return "", false
			}
		}
	}
	return c.P.PathString(path), true
}

// assumeEq builds a query factory assuming k == the string constant s.
func assumeEq(s string) func(k ssa.Value) *an.Query {
	return func(k ssa.Value) *an.Query {
		return &an.Query{Facts: true, InitEq: map[string]constant.Value{an.ValueKey(k): constOf(s)}}
	}
}

// isNot reports whether cond is the negation wrapper; helper to strip NOTs.
func stripNot(v ssa.Value) (ssa.Value, bool) {
	neg := false
	for {
		u, ok := v.(*ssa.UnOp)
		if !ok || u.Op != token.NOT {
			return v, neg
		}
		neg = !neg
		v = u.X
	}
}
