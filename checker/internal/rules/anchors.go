// Package rules holds the repository-specific rules, one file per property.
package rules

import (
	"fmt"
	"go/types"
	"sort"
	"strings"

	"golang.org/x/tools/go/ssa"

	"muxlint/internal/an"
)

// Anchors are the constructs of the repository the rules talk about,
// resolved through types and roles, never through positions or source text.
type Anchors struct {
	P *an.Prog

	TreePkg, SyntaxPkg, TypesPkg, MuxPkg, TracePkg *types.Package

	NodeT, TreeT, SegmentT, ContextT, SegTypeT *types.Named
	// LockIsValue: the tree lock is a mutex value guarded by a boolean flag field (FLockFlag) instead of a nil-able pointer
	LockIsValue bool
	FLockFlag   string
	// Missing: field roles that could not be resolved on this tree (the field names then hold a sentinel)
	Missing []string

	// node fields (names)
	FChildren, FIndexes, FHandlers, FSummary, FParent, FSegment, FRoot, FPattern string
	// tree fields
	FLocker, FCounters, FRootNode, FNotFound, FTrace, FHasTrace, FOptBuilder, FNABuilder, FInterceptors, FTreeName string

	IndexBuilder                                                              *ssa.Function // stores into node.indexes
	NodeSummaryBuilder                                                        *ssa.Function // node method storing summary from a range over handlers
	TreeSummaryBuilder                                                        *ssa.Function // Tree method storing root summary from counters
	MemoBuilder                                                               *ssa.Function // function that stores into the memo map
	MemoVar                                                                   *types.Var    // package-level map int -> rendered entry
	MethodTable                                                               *types.Var    // package-level map string -> int
	SegmentMatch                                                              *ssa.Function // (*Segment).Match(*Context) bool
	Backtrackers                                                              []*ssa.Function
	TreeHandler, TreeAdd, TreeRemove, TreeClean, TreeRoutes, TreeURL, TreeNew *ssa.Function
	NotAllowedKey                                                             string // the constant key of the 405 entry ("")
}

func lookupNamed(pkg *types.Package, name string) *types.Named {
	o := pkg.Scope().Lookup(name)
	if o == nil {
		an.Fatalf("UNRESOLVED anchor: type %s.%s", pkg.Name(), name)
	}
	n, ok := types.Unalias(o.Type()).(*types.Named)
	if !ok {
		an.Fatalf("UNRESOLVED anchor: %s.%s is not a named type", pkg.Name(), name)
	}
	return n
}

// Resolve finds all anchors; an anchor that does not resolve uniquely is a checker error.
func Resolve(p *an.Prog) *Anchors {
	a := &Anchors{P: p}
	a.TreePkg = p.Package("internal/tree").Types
	a.SyntaxPkg = p.Package("internal/syntax").Types
	a.TypesPkg = p.Package("types").Types
	a.MuxPkg = p.Package("").Types
	a.TracePkg = p.Package("internal/trace").Types

	nodeIface := lookupNamed(a.TypesPkg, "Node")
	a.ContextT = lookupNamed(a.TypesPkg, "Context")
	a.SegmentT = lookupNamed(a.SyntaxPkg, "Segment")
	a.SegTypeT = lookupNamed(a.SyntaxPkg, "Type")
	a.TreeT = lookupNamed(a.TreePkg, "Tree")

	// node type: the struct type of the tree package whose pointer implements types.Node
	iface := nodeIface.Underlying().(*types.Interface)
	var cands []*types.Named
	for _, n := range a.TreePkg.Scope().Names() {
		tn, ok := a.TreePkg.Scope().Lookup(n).(*types.TypeName)
		if !ok {
			continue
		}
		named, ok := types.Unalias(tn.Type()).(*types.Named)
		if !ok {
			continue
		}
		if _, isStruct := named.Underlying().(*types.Struct); !isStruct {
			continue
		}
		// method-set check by name (generic types cannot be checked with Implements directly)
		have := map[string]bool{}
		for i := 0; i < named.NumMethods(); i++ {
			have[named.Method(i).Name()] = true
		}
		all := true
		for i := 0; i < iface.NumMethods(); i++ {
			if !have[iface.Method(i).Name()] {
				all = false
			}
		}
		if all {
			cands = append(cands, named)
		}
	}
	if len(cands) != 1 {
		an.Fatalf("UNRESOLVED anchor: node type implementing types.Node: %d candidates", len(cands))
	}
	a.NodeT = cands[0]

	nodeS := a.NodeT.Underlying().(*types.Struct)
	pick := func(st *types.Struct, owner string, role string, pred func(t types.Type) bool, prefer string) string {
		var names []string
		for i := 0; i < st.NumFields(); i++ {
			if pred(st.Field(i).Type()) {
				names = append(names, st.Field(i).Name())
			}
		}
		if len(names) == 1 {
			return names[0]
		}
		for _, n := range names {
			if n == prefer {
				return n
			}
		}
		// a role nothing fills (or several fields could): the rules that look for this field find nothing and
		// report what they then cannot establish; every other rule is unaffected
		a.Missing = append(a.Missing, fmt.Sprintf("%s field for role %s (candidates %v)", owner, role, names))
		return "‹unresolved:" + role + "›"
	}
	isPtrTo := func(t types.Type, target *types.Named) bool {
		p, ok := t.(*types.Pointer)
		if !ok {
			return false
		}
		n, ok := types.Unalias(p.Elem()).(*types.Named)
		return ok && n.Origin() == target.Origin()
	}
	a.FChildren = pick(nodeS, "node", "children", func(t types.Type) bool {
		s, ok := t.(*types.Slice)
		return ok && isPtrTo(s.Elem(), a.NodeT)
	}, "children")
	a.FIndexes = pick(nodeS, "node", "first-byte index", func(t types.Type) bool {
		m, ok := t.(*types.Map)
		if !ok {
			return false
		}
		// keyed by the first byte; the value is a position in the child list or the child itself
		k, ok1 := m.Key().(*types.Basic)
		if !ok1 || k.Kind() != types.Uint8 {
			return false
		}
		if v, ok2 := m.Elem().(*types.Basic); ok2 {
			return v.Kind() == types.Int
		}
		return isPtrTo(m.Elem(), a.NodeT)
	}, "indexes")
	a.FHandlers = pick(nodeS, "node", "handler map", func(t types.Type) bool {
		m, ok := t.(*types.Map)
		if !ok {
			return false
		}
		k, ok1 := m.Key().(*types.Basic)
		_, ok2 := m.Elem().(*types.TypeParam)
		return ok1 && ok2 && k.Kind() == types.String
	}, "handlers")
	a.FSummary = pick(nodeS, "node", "method summary", func(t types.Type) bool {
		b, ok := t.(*types.Basic)
		return ok && b.Kind() == types.Int
	}, "methodIndex")
	a.FParent = pick(nodeS, "node", "parent link", func(t types.Type) bool { return isPtrTo(t, a.NodeT) }, "parent")
	a.FSegment = pick(nodeS, "node", "segment", func(t types.Type) bool { return isPtrTo(t, a.SegmentT) }, "segment")
	a.FRoot = pick(nodeS, "node", "tree link", func(t types.Type) bool { return isPtrTo(t, a.TreeT) }, "root")
	a.FPattern = pick(nodeS, "node", "pattern", func(t types.Type) bool {
		b, ok := t.(*types.Basic)
		return ok && b.Kind() == types.String
	}, "pattern")

	treeS := a.TreeT.Underlying().(*types.Struct)
	a.FLocker = pick(treeS, "Tree", "lock", func(t types.Type) bool {
		// a *sync.RWMutex that is nil when locking is off, or a sync.RWMutex value next to an "enabled" flag
		if p, ok := t.(*types.Pointer); ok {
			t = p.Elem()
		}
		n, ok := types.Unalias(t).(*types.Named)
		return ok && n.Obj().Pkg() != nil && n.Obj().Pkg().Path() == "sync" && n.Obj().Name() == "RWMutex"
	}, "locker")
	for i := 0; i < treeS.NumFields(); i++ {
		if treeS.Field(i).Name() == a.FLocker {
			if _, isPtr := treeS.Field(i).Type().(*types.Pointer); !isPtr {
				a.LockIsValue = true
			}
		}
	}
	a.FCounters = pick(treeS, "Tree", "method counters", func(t types.Type) bool {
		m, ok := t.(*types.Map)
		if !ok {
			return false
		}
		k, ok1 := m.Key().(*types.Basic)
		v, ok2 := m.Elem().(*types.Basic)
		return ok1 && ok2 && k.Kind() == types.String && v.Kind() == types.Int
	}, "methods")
	a.FRootNode = pick(treeS, "Tree", "root node", func(t types.Type) bool { return isPtrTo(t, a.NodeT) }, "node")
	a.FHasTrace = pick(treeS, "Tree", "hasTrace", func(t types.Type) bool {
		b, ok := t.(*types.Basic)
		return ok && b.Kind() == types.Bool
	}, "hasTrace")
	a.FTreeName = pick(treeS, "Tree", "name", func(t types.Type) bool {
		b, ok := t.(*types.Basic)
		return ok && b.Kind() == types.String
	}, "name")
	a.FInterceptors = pick(treeS, "Tree", "interceptors", func(t types.Type) bool {
		return isPtrTo(t, lookupNamed(a.SyntaxPkg, "Interceptors"))
	}, "interceptors")
	// handler-typed fields: notFound and trace (both of type T): by name, must exist with type T
	for _, n := range []struct {
		dst  *string
		name string
	}{{&a.FNotFound, "notFound"}, {&a.FTrace, "trace"}, {&a.FOptBuilder, "optionsBuilder"}, {&a.FNABuilder, "methodNotAllowedBuilder"}} {
		found := false
		for i := 0; i < treeS.NumFields(); i++ {
			if treeS.Field(i).Name() == n.name {
				found = true
			}
		}
		if !found {
			a.Missing = append(a.Missing, "Tree field "+n.name)
			*n.dst = "‹unresolved:" + n.name + "›"
			continue
		}
		*n.dst = n.name
	}

	// package-level tables of the tree package
	var tableCands []*types.Var
	for _, n := range a.TreePkg.Scope().Names() {
		v, ok := a.TreePkg.Scope().Lookup(n).(*types.Var)
		if !ok {
			continue
		}
		m, ok := v.Type().Underlying().(*types.Map)
		if !ok {
			continue
		}
		kb, _ := m.Key().(*types.Basic)
		if kb == nil {
			continue
		}
		if kb.Kind() == types.String {
			if vb, ok := m.Elem().(*types.Basic); ok && vb.Kind() == types.Int {
				tableCands = append(tableCands, v)
			}
		}
		if kb.Kind() == types.Int {
			if a.MemoVar != nil {
				an.Fatalf("UNRESOLVED anchor: two memo maps")
			}
			a.MemoVar = v
		}
	}
	if len(tableCands) == 0 || a.MemoVar == nil {
		an.Fatalf("UNRESOLVED anchor: method table / memo map")
	}

	// functions by role
	nodeBuilders := map[*ssa.Function]int{}
	treeBuilders := map[*ssa.Function]int{}
	for _, f := range p.Funcs {
		if !an.IsLibrary(f) {
			continue
		}
		recvIsNode := f.Signature.Recv() != nil && isPtrTo(f.Signature.Recv().Type(), a.NodeT)
		recvIsTree := f.Signature.Recv() != nil && isPtrTo(f.Signature.Recv().Type(), a.TreeT)
		an.AllInstrs(f, func(in ssa.Instruction) {
			// the summary stored through a setter helper shared by both builders: n.setMethodIndex(index)
			if call := an.CallOf(in); call != nil {
				if g := an.StaticCallee(call); g != nil && isSummarySetter(a, g) && len(call.Args) == len(g.Params) {
					nodeIdx, _, _ := summarySetterArgs(a, g)
					switch rap := an.AP(call.Args[nodeIdx]); {
					case recvIsNode && rap == "recv":
						switch {
						case rangesOver(f, "recv."+a.FHandlers):
							nodeBuilders[f] = 2
						case mentions(f, "recv."+a.FHandlers) && nodeBuilders[f] < 1:
							nodeBuilders[f] = 1
						}
					case recvIsTree && rap == "recv."+a.FRootNode:
						switch {
						case rangesOver(f, "recv."+a.FCounters):
							treeBuilders[f] = 2
						case (mentions(f, "recv."+a.FCounters) || callsMentioning(f, "recv."+a.FCounters)) && treeBuilders[f] < 1:
							treeBuilders[f] = 1
						}
					}
				}
			}
			switch x := in.(type) {
			case *ssa.MapUpdate:
				mp := an.AP(x.Map)
				if strings.HasSuffix(mp, "."+a.FIndexes) {
					setFn(&a.IndexBuilder, f, "index builder")
				}
				if mp == "global:"+a.TreePkg.Name()+"."+a.MemoVar.Name() {
					setFn(&a.MemoBuilder, f, "memo builder")
				}
			case *ssa.Store:
				ap := an.AP(x.Addr)
				if recvIsNode && ap == "recv."+a.FSummary {
					// node summary builder: computes the summary from the handler map (ranges over it — preferred —, or
					// hands it / its keys to a helper)
					switch {
					case rangesOver(f, "recv."+a.FHandlers):
						nodeBuilders[f] = 2
					case mentions(f, "recv."+a.FHandlers) && nodeBuilders[f] < 1:
						nodeBuilders[f] = 1
					}
				}
				if recvIsTree && ap == "recv."+a.FRootNode+"."+a.FSummary {
					switch {
					case rangesOver(f, "recv."+a.FCounters):
						treeBuilders[f] = 2
					case (mentions(f, "recv."+a.FCounters) || callsMentioning(f, "recv."+a.FCounters)) && treeBuilders[f] < 1:
						treeBuilders[f] = 1
					}
				}
			}
		})
	}
	pickBest := func(cands map[*ssa.Function]int, dst **ssa.Function, role string) {
		best := 0
		for _, sc := range cands {
			if sc > best {
				best = sc
			}
		}
		var fs []*ssa.Function
		for f, sc := range cands {
			if sc == best {
				fs = append(fs, f)
			}
		}
		sort.Slice(fs, func(i, j int) bool { return an.FuncKey(fs[i]) < an.FuncKey(fs[j]) })
		for _, f := range fs {
			setFn(dst, f, role)
		}
	}
	pickBest(nodeBuilders, &a.NodeSummaryBuilder, "node summary builder")
	pickBest(treeBuilders, &a.TreeSummaryBuilder, "tree summary builder")
	// the method table is the map[string]int the node summary builder looks its keys up in
	if len(tableCands) == 1 {
		a.MethodTable = tableCands[0]
	} else if a.NodeSummaryBuilder != nil {
		g := an.NewGraph(p)
		near := g.Reach([]*ssa.Function{a.NodeSummaryBuilder}, func(_ *ssa.Function, e an.Edge) bool { return e.Kind == "static" })
		for _, v := range tableCands {
			used := false
			for fn := range near {
				an.AllInstrs(fn, func(in ssa.Instruction) {
					if lk, ok := in.(*ssa.Lookup); ok && an.AP(lk.X) == "global:"+a.TreePkg.Name()+"."+v.Name() {
						used = true
					}
				})
			}
			if used {
				if a.MethodTable != nil && a.MethodTable != v {
					an.Fatalf("UNRESOLVED anchor: two method tables")
				}
				a.MethodTable = v
			}
		}
	}
	if a.MethodTable == nil {
		an.Fatalf("UNRESOLVED anchor: method table")
	}
	if a.NodeSummaryBuilder == nil && a.TreeSummaryBuilder != nil && a.MemoBuilder != nil {
		// no node method recomputes the summary from the handler map (it may be kept incrementally, or by a helper of
		// another shape): the summary rules report what they then cannot establish
		a.Missing = append(a.Missing, "node summary builder (no node method stores node."+a.FSummary+" from a range over the handler map)")
	}
	if a.IndexBuilder == nil && a.TreeSummaryBuilder != nil && a.MemoBuilder != nil {
		// no function fills the first-byte index (its field may be unresolved): the index rules report that
		a.Missing = append(a.Missing, "index builder (no function rebuilds node."+a.FIndexes+")")
	}
	if a.TreeSummaryBuilder == nil || a.MemoBuilder == nil {
		an.Fatalf("UNRESOLVED anchor: builders index=%v nodeSummary=%v treeSummary=%v memo=%v", a.IndexBuilder, a.NodeSummaryBuilder, a.TreeSummaryBuilder, a.MemoBuilder)
	}

	// segment matcher: method of Segment taking *Context returning bool
	var matcherCands []*types.Func
	for i := 0; i < a.SegmentT.NumMethods(); i++ {
		m := a.SegmentT.Method(i)
		sig := m.Type().(*types.Signature)
		if sig.Params().Len() == 1 && isPtrTo(sig.Params().At(0).Type(), a.ContextT) && sig.Results().Len() == 1 {
			if b, ok := sig.Results().At(0).Type().(*types.Basic); ok && b.Kind() == types.Bool {
				matcherCands = append(matcherCands, m)
			}
		}
	}
	if len(matcherCands) > 1 {
		// helpers extracted from the matcher share its signature: the matcher is the exported one
		var exp []*types.Func
		for _, m := range matcherCands {
			if m.Exported() {
				exp = append(exp, m)
			}
		}
		matcherCands = exp
	}
	for _, m := range matcherCands {
		setFn(&a.SegmentMatch, p.SSA.FuncValue(m), "segment matcher")
	}
	if a.SegmentMatch == nil {
		an.Fatalf("UNRESOLVED anchor: segment matcher")
	}
	smName := an.FuncKey(a.SegmentMatch)
	for _, f := range p.Funcs {
		if !an.IsLibrary(f) {
			continue
		}
		if len(an.Calls(f, func(name string, _ *ssa.CallCommon) bool { return name == smName })) > 0 {
			a.Backtrackers = append(a.Backtrackers, f)
		}
	}
	if len(a.Backtrackers) == 0 {
		an.Fatalf("UNRESOLVED anchor: backtracking matcher (no caller of %s)", smName)
	}

	a.TreeHandler = p.MustFunc("tree.(*Tree).Handler")
	a.TreeAdd = p.MustFunc("tree.(*Tree).Add")
	a.TreeRemove = p.MustFunc("tree.(*Tree).Remove")
	a.TreeClean = p.MustFunc("tree.(*Tree).Clean")
	a.TreeRoutes = p.MustFunc("tree.(*Tree).Routes")
	a.TreeURL = p.MustFunc("tree.(*Tree).URL")
	a.TreeNew = p.MustFunc("tree.New")
	if a.LockIsValue {
		// the flag: the bool field of Tree that the constructor fills with one of its own bool parameters
		an.AllInstrs(a.TreeNew, func(in ssa.Instruction) {
			st, ok := in.(*ssa.Store)
			if !ok {
				return
			}
			fa, ok := st.Addr.(*ssa.FieldAddr)
			if !ok {
				return
			}
			if _, isPar := st.Val.(*ssa.Parameter); !isPar {
				return
			}
			if b, isB := st.Val.Type().Underlying().(*types.Basic); !isB || b.Kind() != types.Bool {
				return
			}
			if n := namedOf(fa.X.Type()); n != nil && n.Origin() == a.TreeT.Origin() {
				a.FLockFlag = an.FieldName(fa.X.Type(), fa.Field)
			}
		})
		if a.FLockFlag == "" {
			a.Missing = append(a.Missing, "Tree flag that enables the lock value")
		}
	}

	// the 405 key: the string constant of the tree package used as key in a
	// handler-map lookup on the not-served return of Tree.Handler
	if c, ok := a.TreePkg.Scope().Lookup("methodNotAllowed").(*types.Const); ok {
		a.NotAllowedKey = c.Val().ExactString()
	} else {
		an.Fatalf("UNRESOLVED anchor: 405 key constant")
	}
	return a
}

func setFn(dst **ssa.Function, f *ssa.Function, role string) {
	if *dst != nil && *dst != f {
		an.Fatalf("UNRESOLVED anchor: role %q is ambiguous: %s and %s", role, an.FuncKey(*dst), an.FuncKey(f))
	}
	*dst = f
}

func rangesOver(f *ssa.Function, ap string) bool {
	found := false
	an.AllInstrs(f, func(in ssa.Instruction) {
		if r, ok := in.(*ssa.Range); ok && an.AP(r.X) == ap {
			found = true
		}
	})
	return found
}

// Kind returns the constant value (exact string) of the syntax.Type constant with that name.
func (a *Anchors) Kind(name string) string {
	k, ok := a.SyntaxPkg.Scope().Lookup(name).(*types.Const)
	if !ok || !types.Identical(k.Type(), a.SegTypeT) {
		an.Fatalf("UNRESOLVED anchor: segment kind constant %s", name)
	}
	return k.Val().ExactString()
}

// Describe writes the resolved anchors into a report.
func (a *Anchors) Describe(r *an.Report) {
	p := a.P
	for _, m := range a.Missing {
		r.Note("unresolved anchor: %s — rules that depend on it find nothing and report what they cannot establish", m)
	}
	r.Anchor("nodeType", a.TreePkg.Name()+"."+a.NodeT.Obj().Name()+" ("+p.Pos(a.NodeT.Obj().Pos())+")")
	r.Anchor("childList", "node."+a.FChildren)
	r.Anchor("firstByteIndex", "node."+a.FIndexes)
	r.Anchor("handlerMap", "node."+a.FHandlers)
	r.Anchor("methodSummary", "node."+a.FSummary)
	r.Anchor("parentLink", "node."+a.FParent)
	r.Anchor("treeLock", "Tree."+a.FLocker)
	r.Anchor("treeCounters", "Tree."+a.FCounters)
	if a.IndexBuilder != nil {
		r.Anchor("indexBuilder", an.FuncKey(a.IndexBuilder)+" ("+p.Pos(a.IndexBuilder.Pos())+")")
	}
	if a.NodeSummaryBuilder != nil {
		r.Anchor("nodeSummaryBuilder", an.FuncKey(a.NodeSummaryBuilder)+" ("+p.Pos(a.NodeSummaryBuilder.Pos())+")")
	}
	r.Anchor("treeSummaryBuilder", an.FuncKey(a.TreeSummaryBuilder)+" ("+p.Pos(a.TreeSummaryBuilder.Pos())+")")
	r.Anchor("memoBuilder", an.FuncKey(a.MemoBuilder))
	r.Anchor("segmentMatcher", an.FuncKey(a.SegmentMatch)+" ("+p.Pos(a.SegmentMatch.Pos())+")")
	var bt []string
	for _, f := range a.Backtrackers {
		bt = append(bt, an.FuncKey(f))
	}
	r.Anchor("backtrackingMatchers", strings.Join(bt, ", "))
}

// mentions: some instruction of f has an operand with the given access path.
func mentions(f *ssa.Function, ap string) bool {
	found := false
	an.AllInstrs(f, func(in ssa.Instruction) {
		for _, op := range in.Operands(nil) {
			if *op != nil && an.AP(*op) == ap {
				found = true
			}
		}
	})
	return found
}

// callsMentioning: a static callee of f on the same receiver mentions the access path.
func callsMentioning(f *ssa.Function, ap string) bool {
	found := false
	an.AllInstrs(f, func(in ssa.Instruction) {
		if call := an.CallOf(in); call != nil {
			if g := an.StaticCallee(call); g != nil && an.InModule(g) && len(call.Args) > 0 && an.AP(call.Args[0]) == "recv" && g != f {
				if mentions(g, ap) || rangesOver(g, ap) {
					found = true
				}
			}
		}
	})
	return found
}

func namedOf(t types.Type) *types.Named {
	if p, ok := t.Underlying().(*types.Pointer); ok {
		t = p.Elem()
	}
	n, _ := types.Unalias(t).(*types.Named)
	return n
}

// isSummarySetter: a node method with one integer parameter that stores a value computed from that parameter into
// the receiver's method summary (and does not read the handler map itself).
func isSummarySetter(a *Anchors, g *ssa.Function) bool {
	_, _, ok := summarySetterArgs(a, g)
	return ok
}

// summarySetterArgs: which argument of a summary setter is the node and which the value. The setter is a method of
// the node (n.setMethodIndex(index)) or any function of the tree package that is handed the node
// (tree.setMethodIndex(n, index)): one node parameter, one integer parameter, a store into that node's summary, and
// no look at the handler map (that would make it a builder).
func summarySetterArgs(a *Anchors, g *ssa.Function) (nodeIdx, valIdx int, ok bool) {
	if g == nil || len(g.Blocks) == 0 || len(g.Params) < 2 || len(g.Params) > 3 {
		return 0, 0, false
	}
	nodeIdx, valIdx = -1, -1
	for i, p := range g.Params {
		if isPtrToNamed(p.Type(), a.NodeT) {
			if nodeIdx >= 0 {
				return 0, 0, false
			}
			nodeIdx = i
		}
		if b, isB := p.Type().Underlying().(*types.Basic); isB && b.Info()&types.IsInteger != 0 {
			if valIdx >= 0 {
				return 0, 0, false
			}
			valIdx = i
		}
	}
	if nodeIdx < 0 || valIdx < 0 {
		return 0, 0, false
	}
	// nothing else is handed over, except the tree as the receiver
	if len(g.Params) == 3 && (g.Signature.Recv() == nil || !isPtrToNamed(g.Params[0].Type(), a.TreeT)) {
		return 0, 0, false
	}
	nodeAP := an.AP(g.Params[nodeIdx])
	stores := false
	an.AllInstrs(g, func(in ssa.Instruction) {
		if st, isSt := in.(*ssa.Store); isSt && an.AP(st.Addr) == nodeAP+"."+a.FSummary {
			stores = true
		}
	})
	return nodeIdx, valIdx, stores && !mentions(g, nodeAP+"."+a.FHandlers)
}
