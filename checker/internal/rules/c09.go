package rules

import (
	"fmt"
	"go/token"
	"go/types"
	"strings"

	"golang.org/x/tools/go/ssa"

	"muxlint/internal/an"
)

func init() {
	register(&Spec{
		ID: "C09",
		Explanation: "Decides: R1 fold direction and argument positions of ApplyMiddleware (ascending over the list, h = f.Middleware(h, method, pattern, router), the fold result is returned); R2 concatenation by locality rank — wherever a middleware list is built for Tree.Add / Router.Handle / Router.Prefix / Router.Resource its operands are in non-decreasing rank call argument < Prefix/Resource list < Router list, and Use appends the new ones after the old; R3 retroactive application is exhaustive over the handler-carrying fields of Tree and node (404, TRACE under hasTrace only, every entry of every handler map, every child unconditionally), Router.Use does both the append and the retroactive call on every path and passes only the new middlewares, Group.Use forwards to every router, wraps its own 404 and appends, Group.Add applies the group's list once; R4 argument agreement at every wrap site: a handler stored under key K was wrapped with method K, with the node's full pattern and the tree's name; 404 with (\"\", \"\"), TRACE with (TRACE, \"\"), the group's 404 with (\"\", \"\", \"\"). " +
			"R5 the automatic OPTIONS / 405 entries are installed only behind the not-found edge of their key. " +
			"R6 (= C19.R1) the facade shorthands forward to the canonical registration. " +
			"Not decided separately: the order for every interleaving of Use/Prefix/Handle — it is the composition of R1–R4 (lists are only ever concatenated in rank order and folded left to right).",
		Assumptions: commonAssumptions,
		Run: func(c *Ctx) {
			ruleFold(c, "R1")
			ruleConcatRank(c, "R2")
			ruleStoredListsAreCopies(c, "R2b")
			ruleRetroactive(c, "R3")
			ruleWrapSites(c, "R4")
			ruleNoWastedWrap(c, "R4b")
			ruleAutoHandlersBuiltOnce(c, "R5")
			ruleForwarders(c, "R6")
			ruleExhaustiveWalks(c, "R3w", []*ssa.Function{c.P.MustFunc("tree.(*Tree).ApplyMiddleware")}, "the retroactive application visits every node")
		},
	})
}

func applyMW(c *Ctx) *ssa.Function { return c.P.MustFunc("tree.ApplyMiddleware") }

// ruleFold is C09.R1.
func ruleFold(c *Ctx, rule string) {
	f := applyMW(c)
	c.R.Rule(c.R.Property+"."+rule, 2, "middlewares are folded left to right over the list: later list elements are outermost")
	var inv *ssa.Call
	an.AllInstrs(f, func(in ssa.Instruction) {
		if call, ok := in.(*ssa.Call); ok && call.Call.IsInvoke() && call.Call.Method.Name() == "Middleware" {
			inv = call
		}
	})
	if inv == nil {
		c.R.Add(rule, c.fk(f), "fold-step", c.P.Pos(f.Pos()), false, "ApplyMiddleware no longer calls Middleware on the list elements")
		return
	}
	_, sl, isElem := an.RangeLoopOf(inv.Call.Value)
	okElem := isElem && an.AP(sl) == "p:f"
	args := inv.Call.Args
	phi, isPhi := args[0].(*ssa.Phi)
	okAcc := isPhi && len(phi.Edges) == 2 && ((an.AP(phi.Edges[0]) == "p:h" && phi.Edges[1] == ssa.Value(inv)) || (an.AP(phi.Edges[1]) == "p:h" && phi.Edges[0] == ssa.Value(inv)))
	okPos := len(args) == 4 && an.AP(args[1]) == "p:method" && an.AP(args[2]) == "p:pattern" && an.AP(args[3]) == "p:router"
	good := okElem && okAcc && okPos
	var why []string
	if !okElem {
		why = append(why, "the receiver is not the element of an ascending range over the list")
	}
	if !okAcc {
		why = append(why, "the handler passed is not the accumulated result (starting from h)")
	}
	if !okPos {
		why = append(why, "method/pattern/router are not forwarded in their positions")
	}
	c.R.Add(rule, c.fk(f), "fold-step:h=f[i].Middleware(h,method,pattern,router)", c.pos(inv), good, ifelse(good, "ascending fold with the function's own parameters in place", strings.Join(why, "; ")))
	okRet := true
	for _, r := range an.Returns(f) {
		if !isPhi || r.Results[0] != ssa.Value(phi) {
			okRet = false
		}
	}
	c.R.Add(rule, c.fk(f), "returns-fold-result", c.P.Pos(f.Pos()), okRet, ifelse(okRet, "the accumulated handler is returned", "ApplyMiddleware does not return the accumulated handler"))
}

// middlewareFold: v is the result of `acc = init; for _, x := range list { acc = x.Middleware(acc, args...) }`.
func middlewareFold(v ssa.Value) (init, list ssa.Value, args []ssa.Value, ok bool) {
	phi, isPhi := v.(*ssa.Phi)
	if !isPhi || len(phi.Edges) != 2 {
		return nil, nil, nil, false
	}
	for i, e := range phi.Edges {
		inv, isCall := e.(*ssa.Call)
		if !isCall || !inv.Call.IsInvoke() || inv.Call.Method.Name() != "Middleware" || len(inv.Call.Args) < 1 || inv.Call.Args[0] != ssa.Value(phi) {
			continue
		}
		_, sl, isElem := an.RangeLoopOf(inv.Call.Value)
		if !isElem {
			return nil, nil, nil, false
		}
		return phi.Edges[1-i], sl, inv.Call.Args[1:], true
	}
	return nil, nil, nil, false
}

func msRank(c *Ctx, t *an.Term) (int, string) {
	switch t.Op {
	case "param":
		return 0, "argument"
	case "const", "make":
		return -1, "nil"
	}
	if ap, ok := t.APOf(); ok && strings.HasSuffix(ap, ".ms") {
		// owner of the field
		var fa *ssa.FieldAddr
		switch x := t.V.(type) {
		case *ssa.UnOp:
			fa, _ = x.X.(*ssa.FieldAddr)
		case *ssa.FieldAddr:
			fa = x
		}
		if fa != nil {
			if o := ownerOf(fa); o != nil {
				switch o.Obj().Name() {
				case "Prefix", "Resource":
					return 1, o.Obj().Name() + " list"
				case "Router":
					return 2, "Router list"
				case "Group":
					return 3, "Group list"
				}
			}
		}
	}
	return 99, "unknown:" + t.String()
}

// ruleConcatRank is C09.R2.
func ruleConcatRank(c *Ctx, rule string) {
	c.R.Rule(c.R.Property+"."+rule, 4, "route middlewares are innermost, then Prefix/Resource, then Router.Use; Use appends new middlewares after (outside) the old ones")
	targets := map[string]int{"tree.(*Tree).Add": 3, "mux.(*Router).Handle": 3, "mux.(*Router).Prefix": 2, "mux.(*Router).Resource": 2}
	for _, f := range c.libFuncs() {
		if !strings.HasPrefix(c.fk(f), "mux.") {
			continue
		}
		an.AllInstrs(f, func(in ssa.Instruction) {
			call := an.CallOf(in)
			if call == nil {
				return
			}
			idx, ok := targets[an.CalleeName(call)]
			if !ok || idx >= len(call.Args) {
				return
			}
			t := c.O.Of(call.Args[idx])
			ops := an.FlattenConcat(t)
			if len(ops) == 1 && ops[0].Op == "param" {
				return // plain forwarding of the caller's list (verb helpers); covered by C19
			}
			if len(ops) == 1 && ops[0].Op == "const" {
				return // no middlewares (Hosts)
			}
			last := -1
			good := true
			var desc []string
			for _, o := range ops {
				r, name := msRank(c, o)
				desc = append(desc, name)
				if r == 99 || r < last {
					good = false
				}
				if r > last {
					last = r
				}
			}
			construct := "call:" + an.CalleeName(call) + "/middlewares:" + strings.ReplaceAll(strings.Join(desc, "++"), " ", "-")
			c.R.Add(rule, c.fk(f), construct, c.pos(in), good, ifelse(good, "operands in non-decreasing locality rank: "+strings.Join(desc, ", "), "the middleware list is built as "+strings.Join(desc, " ++ ")+": an outer layer ends up inside an inner one"))
		})
	}
	// list construction must not write into a slice the function does not own: append(x, ...) whose result
	// goes anywhere but back into x may reuse x's backing array (spare capacity) and overwrite the caller's data
	for _, f := range c.libFuncs() {
		if !strings.HasPrefix(c.fk(f), "mux.") {
			continue
		}
		an.AllInstrs(f, func(in ssa.Instruction) {
			call, ok := builtinCall(in, "append")
			if !ok || len(call.Args) == 0 {
				return
			}
			v, isVal := in.(ssa.Value)
			if !isVal || !isMiddlewareSlice(v.Type()) {
				return
			}
			first := call.Args[0]
			fap := an.AP(first)
			owned := ownedSlice(c, first, 0)
			// result stored back into the same location
			back := false
			for _, r := range *v.Referrers() {
				if st, ok := r.(*ssa.Store); ok && st.Val == v && an.AP(st.Addr) == fap {
					back = true
				}
			}
			good := owned || back
			c.R.Add(rule, c.fk(f), "append:"+fap+"/no-foreign-backing-array", c.pos(in), good, ifelse(good, "appends onto its own slice (stored back) or a fresh one", "append("+fap+", …) builds a middleware list on top of a slice this function does not own: with spare capacity it overwrites the caller's (or another route's) elements, so a route can receive another route's middlewares"))
		})
	}
	for _, k := range []string{"mux.(*Router).Use", "mux.(*Group).Use"} {
		f := c.P.MustFunc(k)
		found := false
		an.AllInstrs(f, func(in ssa.Instruction) {
			if base, field, val, ok := fieldStoreAny(in); ok && base == "recv" && field == "ms" {
				found = true
				ops := an.FlattenConcat(c.O.Of(val))
				good := len(ops) == 2 && ops[0].String() == "recv.ms" && ops[1].String() == "param:m"
				c.R.Add(rule, k, "append:ms=old++new", c.pos(in), good, ifelse(good, "the new middlewares are appended after the existing ones (most recently added outermost)", "Use stores "+c.O.Of(val).String()+": not old ++ new"))
			}
		})
		if !found {
			c.R.Add(rule, k, "append:ms=old++new", c.P.Pos(f.Pos()), false, "Use no longer records the middlewares for later registrations")
		}
	}
}

func isMiddlewareSlice(t types.Type) bool {
	sl, ok := t.Underlying().(*types.Slice)
	if !ok {
		return false
	}
	n, ok := types.Unalias(sl.Elem()).(*types.Named)
	return ok && n.Obj().Name() == "Middleware"
}

// ruleRetroactive is C09.R3.
func ruleRetroactive(c *Ctx, rule string) {
	a := c.A
	c.R.Rule(c.R.Property+"."+rule, 8, "Use wraps every existing handler — route methods, HEAD, OPTIONS, 405, 404 and TRACE — exactly once, regardless of whether it is called before or after registration")
	amw := applyMW(c)
	treeApply := c.P.MustFunc("tree.(*Tree).ApplyMiddleware")
	nodeApply := c.P.MustFunc("tree.(*node).applyMiddleware")
	// (a) exhaustiveness over handler-carrying fields
	type hf struct{ owner, field string }
	var fields []hf
	for _, st := range []struct {
		name string
		s    *types.Struct
	}{{"Tree", a.TreeT.Underlying().(*types.Struct)}, {"node", a.NodeT.Underlying().(*types.Struct)}} {
		for i := 0; i < st.s.NumFields(); i++ {
			t := st.s.Field(i).Type()
			if _, isTP := t.(*types.TypeParam); isTP {
				fields = append(fields, hf{st.name, st.s.Field(i).Name()})
			}
			if m, isMap := t.(*types.Map); isMap {
				if _, isTP := m.Elem().(*types.TypeParam); isTP {
					fields = append(fields, hf{st.name, st.s.Field(i).Name()})
				}
			}
		}
	}
	g := an.NewGraph(c.P)
	reach := g.Reach([]*ssa.Function{treeApply}, func(_ *ssa.Function, e an.Edge) bool { return e.Kind == "static" || e.Kind == "closure" })
	rewritten := map[string]string{}
	for f := range reach {
		an.AllInstrs(f, func(in ssa.Instruction) {
			var target string
			var val ssa.Value
			if base, field, v, ok := fieldStoreAny(in); ok && base == "recv" {
				if fa := in.(*ssa.Store).Addr.(*ssa.FieldAddr); ownerOf(fa) != nil {
					target, val = ownerOf(fa).Obj().Name()+"."+field, v
				}
			}
			if mu, ok := in.(*ssa.MapUpdate); ok {
				if base, isH := fieldLoadOf(mu.Map, a.NodeT, a.FHandlers); isH && (base == "recv" || (strings.HasPrefix(base, "p:") && f.Parent() != nil)) {
					target, val = "node."+a.FHandlers, mu.Value // in the walk itself, or in the per-node action handed to a visitor
				}
			}
			if target == "" {
				return
			}
			if call, ok := val.(*ssa.Call); ok {
				if callee := an.StaticCallee(&call.Call); callee == amw {
					rewritten[target] = c.pos(in)
				}
			}
		})
	}
	for _, f := range fields {
		at, ok := rewritten[f.owner+"."+f.field]
		c.R.Add(rule, c.fk(treeApply), "rewrites:"+f.owner+"."+f.field, c.P.Pos(treeApply.Pos()), ok, ifelse(ok, "rewritten with ApplyMiddleware at "+at, "the handler-carrying field "+f.owner+"."+f.field+" is not rewritten by the retroactive application: handlers stored there miss middlewares added by a later Use"))
	}
	// (b) the walk: every handler of the map, every child, unconditionally
	okMap, okKids := false, false
	// the map may be rewritten by a helper that the walk calls on every path, on the same node
	mapWalkers := []*ssa.Function{nodeApply}
	an.AllInstrs(nodeApply, func(in ssa.Instruction) {
		call, ok := in.(*ssa.Call)
		if !ok {
			return
		}
		g := an.StaticCallee(&call.Call)
		if g == nil || !an.InModule(g) || an.Origin(g) == an.Origin(nodeApply) || len(g.Blocks) == 0 || len(call.Call.Args) == 0 || an.AP(call.Call.Args[0]) != "recv" {
			return
		}
		always := (&an.Query{
			Target: func(t ssa.Instruction) bool { _, ok := t.(*ssa.Return); return ok },
			Block:  func(t ssa.Instruction) bool { return t == ssa.Instruction(call) },
		}).Search(an.Entry(nodeApply)) == nil
		if always {
			mapWalkers = append(mapWalkers, an.Origin(g))
		}
	})
	for _, w := range mapWalkers {
		an.AllInstrs(w, func(in ssa.Instruction) {
			if mu, ok := in.(*ssa.MapUpdate); ok && rangeKeyOf(mu.Key, "recv."+a.FHandlers) {
				okMap = unconditionalInLoop(in)
			}
		})
	}
	// the walk may be delegated to a visitor: nodeApply calls, on every path, a function that applies a per-node
	// action (a closure) to the node and, unconditionally, to every child with the same action
	an.AllInstrs(nodeApply, func(in ssa.Instruction) {
		call, ok := in.(*ssa.Call)
		if !ok {
			return
		}
		w := an.StaticCallee(&call.Call)
		if w == nil || !an.InModule(w) || len(call.Call.Args) < 2 || an.AP(call.Call.Args[0]) != "recv" {
			return
		}
		mc, isMC := call.Call.Args[len(call.Call.Args)-1].(*ssa.MakeClosure)
		if !isMC || !exhaustiveVisitor(c, an.Origin(w)) {
			return
		}
		always := (&an.Query{
			Target: func(t ssa.Instruction) bool { _, ok := t.(*ssa.Return); return ok },
			Block:  func(t ssa.Instruction) bool { return t == ssa.Instruction(call) },
		}).Search(an.Entry(nodeApply)) == nil
		if !always {
			return
		}
		action := mc.Fn.(*ssa.Function)
		if len(action.Params) != 1 {
			return
		}
		nodeAP := an.AP(action.Params[0])
		an.AllInstrs(action, func(x ssa.Instruction) {
			if mu, ok := x.(*ssa.MapUpdate); ok && rangeKeyOf(mu.Key, nodeAP+"."+a.FHandlers) {
				okMap = unconditionalInLoop(x)
				okKids = true // the visitor reaches every child with this very action
			}
		})
	})
	an.AllInstrs(nodeApply, func(in ssa.Instruction) {
		if call, ok := calleeIs(in, nodeApply); ok {
			_, sl, isElem := an.RangeLoopOf(call.Args[0])
			okKids = isElem && an.AP(sl) == "recv."+a.FChildren && an.AP(call.Args[1]) == "p:ms" && unconditionalInLoop(in)
		}
	})
	c.R.Add(rule, c.fk(nodeApply), "walk:every-handler", c.P.Pos(nodeApply.Pos()), okMap, ifelse(okMap, "every entry of the handler map is rewritten unconditionally", "not every entry of a node's handler map is rewritten"))
	c.R.Add(rule, c.fk(nodeApply), "walk:every-child", c.P.Pos(nodeApply.Pos()), okKids, ifelse(okKids, "every child is visited with the same list, unconditionally", "the retroactive walk skips children or passes another list"))
	// the walk starts at the root node itself (it owns the OPTIONS * handler and its 405)
	rootWalk := (&an.Query{
		Assume: func(cond ssa.Value) (bool, bool) {
			// a call without middlewares has nothing to walk for
			v, neg := stripNot(cond)
			bo, ok := v.(*ssa.BinOp)
			if !ok {
				return false, false
			}
			lc, ok := bo.X.(*ssa.Call)
			if !ok {
				return false, false
			}
			call, isLen := builtinCall(lc, "len")
			if !isLen || !isMiddlewareSlice(call.Args[0].Type()) {
				return false, false
			}
			if _, isPar := call.Args[0].(*ssa.Parameter); !isPar {
				return false, false
			}
			k, ok := bo.Y.(*ssa.Const)
			if !ok || k.Value == nil || k.Int64() != 0 {
				return false, false
			}
			switch bo.Op {
			case token.EQL:
				return neg, true
			case token.NEQ, token.GTR:
				return !neg, true
			}
			return false, false
		},
		Target: func(t ssa.Instruction) bool { _, ok := t.(*ssa.Return); return ok },
		Block: func(t ssa.Instruction) bool {
			call, ok := calleeIs(t, nodeApply)
			return ok && an.AP(call.Args[0]) == "recv."+a.FRootNode && an.AP(call.Args[1]) == "p:ms"
		},
	}).Search(an.Entry(treeApply)) == nil
	c.R.Add(rule, c.fk(treeApply), "walk:starts-at-root-node", c.P.Pos(treeApply.Pos()), rootWalk, ifelse(rootWalk, "every path walks the tree from the root node with the new list", "the retroactive walk does not start at the root node: the handlers the root owns (OPTIONS * and its 405) never receive Use middlewares"))
	// (c) trace rewrite guarded only by hasTrace; notFound unguarded
	an.AllInstrs(treeApply, func(in ssa.Instruction) {
		base, field, _, ok := fieldStoreAny(in)
		if !ok || base != "recv" {
			return
		}
		// "every call" = every call that has middlewares to apply: with an empty list nothing is to be done
		var listPar *ssa.Parameter
		for _, p := range treeApply.Params {
			if isMiddlewareSlice(p.Type()) {
				listPar = p
			}
		}
		assumeNonEmpty := func(withTrace bool) func(cond ssa.Value) (bool, bool) {
			return func(cond ssa.Value) (bool, bool) {
				v, neg := stripNot(cond)
				if an.AP(v) == "recv."+a.FHasTrace {
					return withTrace != neg, true
				}
				bo, ok := v.(*ssa.BinOp)
				if !ok || listPar == nil {
					return false, false
				}
				lc, ok := bo.X.(*ssa.Call)
				if !ok {
					return false, false
				}
				if call, isLen := builtinCall(lc, "len"); !isLen || call.Args[0] != ssa.Value(listPar) {
					return false, false
				}
				k, ok := bo.Y.(*ssa.Const)
				if !ok || k.Value == nil {
					return false, false
				}
				n := k.Int64()
				var val, known bool
				switch bo.Op {
				case token.EQL:
					val, known = false, n == 0
				case token.NEQ, token.GTR:
					val, known = true, n == 0
				case token.LSS:
					val, known = false, n <= 1
				case token.GEQ:
					val, known = true, n <= 1
				}
				return val != neg, known
			}
		}
		everyPath := func(withTrace bool) bool {
			return (&an.Query{
				Assume: assumeNonEmpty(withTrace),
				Target: func(t ssa.Instruction) bool { _, ok := t.(*ssa.Return); return ok },
				Block:  func(t ssa.Instruction) bool { return t == in },
			}).Search(an.Entry(treeApply)) == nil
		}
		switch field {
		case a.FNotFound:
			un := everyPath(true) && everyPath(false)
			c.R.Add(rule, c.fk(treeApply), "404:unconditional", c.pos(in), un, ifelse(un, "the 404 handler is rewritten on every call that brings middlewares", "the 404 handler is rewritten only on some paths"))
		case a.FTrace:
			dom := an.DominatedByEdge(in, func(b *ssa.BasicBlock, succ int) bool {
				return edgeHas(b, succ, func(cond ssa.Value, truth bool) bool { return an.AP(cond) == "recv."+a.FHasTrace && truth })
			})
			always := everyPath(true)
			c.R.Add(rule, c.fk(treeApply), "trace:iff-hasTrace", c.pos(in), dom && always, ifelse(dom && always, "the TRACE handler is rewritten exactly when configured", "the TRACE handler is not rewritten exactly under hasTrace"))
		}
	})
	// (d) Router.Use
	use := c.P.MustFunc("mux.(*Router).Use")
	var storeMs, retro ssa.Instruction
	retroArg := ""
	an.AllInstrs(use, func(in ssa.Instruction) {
		if base, field, _, ok := fieldStoreAny(in); ok && base == "recv" && field == "ms" {
			storeMs = in
		}
		if call, ok := calleeIs(in, treeApply); ok {
			retro = in
			retroArg = c.O.Of(call.Args[1]).String()
		}
	})
	// on every path that brings middlewares (an early return for an empty list changes nothing)
	both := storeMs != nil && retro != nil
	if both {
		var listPar *ssa.Parameter
		for _, p := range use.Params {
			if isMiddlewareSlice(p.Type()) {
				listPar = p
			}
		}
		for _, must := range []ssa.Instruction{storeMs, retro} {
			must := must
			path := (&an.Query{
				Assume: func(cond ssa.Value) (bool, bool) {
					v, neg := stripNot(cond)
					bo, ok := v.(*ssa.BinOp)
					if !ok || listPar == nil {
						return false, false
					}
					lc, ok := bo.X.(*ssa.Call)
					if !ok {
						return false, false
					}
					if call, isLen := builtinCall(lc, "len"); !isLen || call.Args[0] != ssa.Value(listPar) {
						return false, false
					}
					k, ok := bo.Y.(*ssa.Const)
					if !ok || k.Value == nil || k.Int64() != 0 {
						return false, false
					}
					switch bo.Op {
					case token.EQL:
						return neg, true
					case token.NEQ, token.GTR:
						return !neg, true
					}
					return false, false
				},
				Target: func(t ssa.Instruction) bool { _, ok := t.(*ssa.Return); return ok },
				Block:  func(t ssa.Instruction) bool { return t == must },
			}).Search(an.Entry(use))
			if path != nil {
				both = false
			}
		}
	}
	c.R.Add(rule, c.fk(use), "records-and-applies-on-every-path", c.P.Pos(use.Pos()), both, ifelse(both, "Use records the middlewares and applies them to existing handlers on its single path", "Router.Use does not both record and retroactively apply the middlewares on every path"))
	c.R.Add(rule, c.fk(use), "retroactive-arg=new-only", c.P.Pos(use.Pos()), retroArg == "param:m", ifelse(retroArg == "param:m", "only the new middlewares are applied to existing handlers", "the retroactive call receives "+retroArg+": already-applied middlewares are applied again (or new ones not at all)"))
	// (e) Group.Use
	guse := c.P.MustFunc("mux.(*Group).Use")
	okFwd, okNF := false, false
	an.AllInstrs(guse, func(in ssa.Instruction) {
		if call, ok := calleeIs(in, use); ok {
			_, sl, isElem := an.RangeLoopOf(call.Args[0])
			okFwd = isElem && an.AP(sl) == "recv.routers" && an.AP(call.Args[1]) == "p:m" && unconditionalInLoop(in)
		}
		if base, field, val, ok := fieldStoreAny(in); ok && base == "recv" && field == "notFound" {
			okNF = c.O.Of(val).String() == `call<tree.ApplyMiddleware>(recv.notFound, "", "", "", param:m)`
			// or the same fold written out: acc = recv.notFound; for each x of m, ascending: acc = x.Middleware(acc, "", "", "")
			if init, list, args, isFold := middlewareFold(val); !okNF && isFold && an.AP(init) == "recv.notFound" && an.AP(list) == "p:m" && len(args) == 3 {
				okNF = true
				for _, x := range args {
					if sc, isC := strConst(x); !isC || sc != "" {
						okNF = false
					}
				}
			}
		}
	})
	c.R.Add(rule, c.fk(guse), "forwards-to-every-router", c.P.Pos(guse.Pos()), okFwd, ifelse(okFwd, "every router of the group gets the new middlewares", "Group.Use does not forward the middlewares to every router"))
	c.R.Add(rule, c.fk(guse), "wraps-own-404", c.P.Pos(guse.Pos()), okNF, ifelse(okNF, `the group's 404 is wrapped with ("", "", "")`, "the group's not-found handler is not wrapped with the new middlewares and empty method/pattern/router"))
	// (f) Group.Add applies the group's list once
	gadd := c.P.MustFunc("mux.(*Group).Add")
	n := 0
	okArg := false
	an.AllInstrs(gadd, func(in ssa.Instruction) {
		if call, ok := calleeIs(in, use); ok {
			n++
			okArg = an.AP(call.Args[0]) == "p:r" && an.AP(call.Args[1]) == "recv.ms"
		}
	})
	c.R.Add(rule, c.fk(gadd), "applies-group-list-once", c.P.Pos(gadd.Pos()), n == 1 && okArg, ifelse(n == 1 && okArg, "r.Use(g.ms...) exactly once", fmt.Sprintf("Group.Add applies the group's middlewares %d times (argument ok: %v)", n, okArg)))
	an.AllInstrs(gadd, func(in ssa.Instruction) {
		if _, ok := calleeIs(in, use); ok {
			dom := dupCheckedBefore(c, in)
			c.R.Add(rule, c.fk(gadd), "applies-only-after-duplicate-check", c.pos(in), dom, ifelse(dom, "the group's middlewares are applied only when the router is accepted", "Group.Add wraps the router's handlers before the duplicate-name check: a rejected Add leaves them wrapped, and adding the router again applies the group's middlewares twice"))
		}
	})
}

// unconditionalInLoop: the instruction's block is entered from the loop header only (no extra condition in the body).
func unconditionalInLoop(in ssa.Instruction) bool {
	b := in.Block()
	if len(b.Preds) != 1 {
		return false
	}
	p := b.Preds[0]
	ifi, ok := p.Instrs[len(p.Instrs)-1].(*ssa.If)
	if !ok {
		return false
	}
	if _, _, isRange := rangeHeaderOf(ifi); isRange {
		return true
	}
	if ex, ok := ifi.Cond.(*ssa.Extract); ok {
		_, isNext := ex.Tuple.(*ssa.Next)
		return isNext
	}
	return false
}

func rangeHeaderOf(ifi *ssa.If) (ssa.Value, *ssa.BasicBlock, bool) {
	// a range-over-slice header has the shape recognised by an.RangeLoopOf on its elements; approximate by block comment
	if strings.HasPrefix(ifi.Block().Comment, "rangeindex.loop") {
		return nil, nil, true
	}
	return nil, nil, false
}

// ruleWrapSites is C09.R4.
func ruleWrapSites(c *Ctx, rule string) {
	a := c.A
	amw := applyMW(c)
	c.R.Rule(c.R.Property+"."+rule, 8, "every middleware factory is invoked with that handler's method ('' for 404/405), full pattern ('' for 404, TRACE) and router name")
	_ = amw
	judge := func(f *ssa.Function, at ssa.Instruction, dest, key string, wargs []*an.Term) {
		method, pattern, router := wargs[1].String(), wargs[2].String(), wargs[3].String()
		var want [3]string
		desc := ""
		switch {
		case strings.HasPrefix(dest, "handlers:"):
			node := strings.TrimPrefix(dest, "handlers:")
			want[0] = key
			if pattern == node+"."+a.FPattern {
				want[1] = pattern
			} else {
				want[1] = "param:pattern"
			}
			want[2] = node + "." + a.FRoot + "." + a.FTreeName
			desc = "handler-map[" + key + "]"
		case dest == "field:recv."+a.FNotFound && strings.HasPrefix(c.fk(f), "tree."):
			want = [3]string{`""`, `""`, "recv." + a.FTreeName}
			desc = "tree-404"
		case dest == "field:recv."+a.FTrace:
			want = [3]string{`"TRACE"`, `""`, "recv." + a.FTreeName}
			desc = "tree-TRACE"
		case dest == "field:recv.notFound":
			want = [3]string{`""`, `""`, `""`}
			desc = "group-404"
		default:
			return
		}
		good := method == want[0] && pattern == want[1] && router == want[2]
		c.R.Add(rule, c.fk(f), "wrap:"+desc, c.pos(at), good, ifelse(good, fmt.Sprintf("wrapped with (%s, %s, %s)", method, pattern, router), fmt.Sprintf("wrapped with (%s, %s, %s), the contract is (%s, %s, %s)", method, pattern, router, want[0], want[1], want[2])))
	}
	for _, f := range c.libFuncs() {
		an.AllInstrs(f, func(in ssa.Instruction) {
			switch x := in.(type) {
			case *ssa.MapUpdate:
				base, isH := fieldLoadOf(x.Map, a.NodeT, a.FHandlers)
				if !isH {
					return
				}
				if wargs, ok := c.resolveWrap(x.Value, 0); ok {
					judge(f, in, "handlers:"+base, c.O.Of(x.Key).String(), wargs)
				}
			case *ssa.Store:
				if base, field, _, ok := fieldStoreAny(x); ok {
					if wargs, ok := c.resolveWrap(x.Val, 0); ok {
						judge(f, in, "field:"+base+"."+field, "", wargs)
					}
				}
			}
		})
	}
	// Tree.Add passes its pattern through to the installer unchanged
	okPass := false
	an.AllInstrs(a.TreeAdd, func(in ssa.Instruction) {
		call := an.CallOf(in)
		if call == nil {
			return
		}
		if g := an.StaticCallee(call); g != nil && an.FuncKey(g) == "tree.(*node).addMethods" {
			okPass = an.AP(call.Args[2]) == "p:pattern" && an.AP(call.Args[1]) == "p:h" && an.AP(call.Args[3]) == "p:ms"
		}
	})
	c.R.Add(rule, c.fk(a.TreeAdd), "passes(h,pattern,ms)-unchanged", c.P.Pos(a.TreeAdd.Pos()), okPass, ifelse(okPass, "the installer receives the API's handler, pattern and list", "Tree.Add does not pass its handler, pattern and middleware list unchanged to the installer"))
}

// ownedSlice: the slice is freshly allocated in this function (make, nil, Clone/Concat result, or an append onto such).
func ownedSlice(c *Ctx, v ssa.Value, depth int) bool {
	if depth > 6 {
		return false
	}
	switch x := v.(type) {
	case *ssa.Const, *ssa.MakeSlice:
		return true
	case *ssa.Slice:
		return ownedSlice(c, x.X, depth+1)
	case *ssa.Phi:
		for _, e := range x.Edges {
			if e != ssa.Value(x) && !ownedSlice(c, e, depth+1) {
				return false
			}
		}
		return true
	case *ssa.Call:
		switch an.CalleeName(&x.Call) {
		case "slices.Clone", "slices.Concat":
			return true
		case "builtin:append":
			return ownedSlice(c, x.Call.Args[0], depth+1)
		}
	}
	return false
}

// ruleNoWastedWrap is C09.R4b: "every middleware factory is invoked exactly once per wrapped handler" — a handler
// that was wrapped (the fold ran the user's factories) is installed on every path that follows: stored into a
// handler map or a handler field, returned, or handed to a module function that does so with that parameter on
// every path. A wrap whose result can be dropped (computed eagerly, stored only if absent) invokes the factories
// for a handler that is never served.
func ruleNoWastedWrap(c *Ctx, rule string) {
	amw := applyMW(c)
	c.R.Rule(c.R.Property+"."+rule, 4, "a wrapped handler is always installed: the factories are not invoked for handlers that are thrown away")
	var sinkOf func(f *ssa.Function, v ssa.Value, depth int) func(ssa.Instruction) bool
	sinkOf = func(f *ssa.Function, v ssa.Value, depth int) func(ssa.Instruction) bool {
		return func(in ssa.Instruction) bool {
			switch x := in.(type) {
			case *ssa.MapUpdate:
				return x.Value == v
			case *ssa.Store:
				return x.Val == v
			case *ssa.Return:
				for _, r := range x.Results {
					if r == v {
						return true
					}
				}
				return false
			}
			call := an.CallOf(in)
			if call == nil || depth > 2 {
				return false
			}
			if _, isDefer := in.(*ssa.Defer); isDefer {
				return false
			}
			g := an.StaticCallee(call)
			if g == nil || !an.InModule(g) || len(g.Blocks) == 0 {
				return false
			}
			for i, a := range an.CallArgs(call) {
				if a != v || i >= len(g.Params) {
					continue
				}
				if an.Origin(g) == an.Origin(amw) && i == 0 {
					return true // wrapped again: the inner handler lives on inside the new one
				}
				p := g.Params[i]
				inner := sinkOf(g, p, depth+1)
				path := (&an.Query{
					Target: func(t ssa.Instruction) bool { _, ok := t.(*ssa.Return); return ok && !inner(t) },
					Block:  inner,
				}).Search(an.Entry(g))
				if path == nil {
					return true
				}
			}
			return false
		}
	}
	for _, f := range c.libFuncs() {
		if an.Origin(f) == an.Origin(amw) {
			continue
		}
		an.AllInstrs(f, func(in ssa.Instruction) {
			call, ok := in.(*ssa.Call)
			if !ok {
				return
			}
			g := an.StaticCallee(&call.Call)
			if g == nil || an.Origin(g) != an.Origin(amw) {
				return
			}
			sink := sinkOf(f, call, 0)
			path := (&an.Query{
				Target: func(t ssa.Instruction) bool { _, ok := t.(*ssa.Return); return ok && !sink(t) },
				Block:  sink,
			}).Search(an.After(in))
			o := c.R.Add(rule, c.fk(f), "wrap:"+strings.ReplaceAll(c.O.Of(call.Call.Args[1]).String(), " ", "")+"/installed-on-every-path", c.pos(in), path == nil, ifelse(path == nil, "the wrapped handler is stored, returned or handed to a function that installs it, on every path", "the wrapped handler can be dropped: the middleware factories were invoked for a handler that is never served (not exactly once per wrapped handler)"))
			if path != nil {
				o.Path = c.P.PathString(path)
			}
		})
	}
}

// exhaustiveVisitor: w(node, action) applies action to node on every path and calls itself with the same action for
// every child, unconditionally (a pre- or post-order walk of the subtree).
func exhaustiveVisitor(c *Ctx, w *ssa.Function) bool {
	a := c.A
	if w == nil || len(w.Blocks) == 0 || len(w.Params) < 2 {
		return false
	}
	action := w.Params[len(w.Params)-1]
	if _, isFn := action.Type().Underlying().(*types.Signature); !isFn {
		return false
	}
	node := w.Params[0]
	var selfCalls, visits []ssa.Instruction
	kidsOK := false
	an.AllInstrs(w, func(in ssa.Instruction) {
		call, ok := in.(*ssa.Call)
		if !ok {
			return
		}
		if call.Call.Value == ssa.Value(action) && len(call.Call.Args) == 1 && call.Call.Args[0] == ssa.Value(node) {
			visits = append(visits, in)
		}
		if g := an.StaticCallee(&call.Call); g != nil && an.Origin(g) == an.Origin(w) {
			selfCalls = append(selfCalls, in)
			_, sl, isElem := an.RangeLoopOf(call.Call.Args[0])
			if isElem && an.AP(sl) == an.AP(node)+"."+a.FChildren && call.Call.Args[len(call.Call.Args)-1] == ssa.Value(action) && unconditionalInLoop(in) {
				kidsOK = true
			}
		}
	})
	if len(visits) == 0 || len(selfCalls) != 1 || !kidsOK {
		return false
	}
	// the node itself is visited on every path
	return (&an.Query{
		Target: func(t ssa.Instruction) bool { _, ok := t.(*ssa.Return); return ok },
		Block: func(t ssa.Instruction) bool {
			for _, v := range visits {
				if v == t {
					return true
				}
			}
			return false
		},
	}).Search(an.Entry(w)) == nil
}
