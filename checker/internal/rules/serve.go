package rules

import (
	"fmt"
	"go/token"
	"go/types"
	"strings"

	"golang.org/x/tools/go/ssa"

	"muxlint/internal/an"
)

func init() {
	register(&Spec{
		ID: "C16",
		Explanation: "Decides: R1 when a recovery function is configured a deferred closure calling recover() is installed before every call the serving function makes (tree lookup, CORS, the user's CallFunc), for Router.serveContext and for the group's not-found path; every recover() of the module sits in such a guarded deferred closure (so without the option nothing is recovered); R2 the closure calls the configured function exactly once, on the edge where the recovered value is non-nil, with the response writer and the recovered value itself; R3 the option reaches the router: NewRouter/NewGroup store buildOption's recoverFunc, Group.New passes the group's options before the call's own; R4 the context is released on the recovery path too (deferred in Group, after serveContext returns in Router — recovery happens inside serveContext). " +
			"R11 (= C07.R12) NewGroup / NewRouter / Group.New do not keep the caller's option slice. " +
			"Not decided: panics inside user-supplied matchers (outside the property).",
		Assumptions: commonAssumptions,
		Run: func(c *Ctx) {
			ruleRecoverInstalled(c, "R1")
			ruleRecoverClosure(c, "R2")
			ruleRecoverOptionFlow(c, "R3")
			ruleRecoverRelease(c, "R4")
			ruleLocksSurviveRecovery(c, "R5")
			ruleRecoveryWriterIsCurrent(c, "R6")
			ruleAppendDoesNotAlias(c, "R7", "mux.(*Group).New", "mux.NewGroup", "mux.NewRouter")
			ruleOptionClosuresStore(c, "R8")
			ruleRecoveryShorthands(c, "R9")
			ruleRecoveryFieldOwnership(c, "R10")
			ruleCallersSlicesAreNotRetained(c, "R11", "NewGroup|NewRouter|Group).New")
			rulePoolReleaseOnce(c, "R12")
		},
	})
	register(&Spec{
		ID: "C18",
		Explanation: "Decides: R1 with a TRACE handler configured, a TRACE request never reaches the matcher or a 404 return of Tree.Handler — it is answered by the TRACE handler with the root node; R2 (= C04.R3) every method summary includes the TRACE bit when configured; R3 (= C08.R4) TRACE cannot be registered by hand iff a TRACE handler is configured, and is an ordinary method otherwise; R4 header before status — in the whole module no header of a ResponseWriter is set after WriteHeader/Write on the same writer; R5 the Trace helper writes html.EscapeString of httputil.DumpRequest(r, body) with status 200 and Content-Type message/http, and mux.Trace forwards its arguments in order. " +
			"R11 (= C04.R16) TRACE named in Remove's list reaches the deletion of its entry. " +
			"R12 (= C07.R2) the method tables do not escape; R13 (= C09.R4) wrap-site arguments of the TRACE handler. " +
			"Not decided: the content of httputil.DumpRequest.",
		Assumptions: commonAssumptions,
		Run: func(c *Ctx) {
			ruleTraceShortCircuit(c, "R1")
			ruleSummaryByBuilder(c, "R2")
			ruleValidationDominatesInstall(c, "R3", false)
			ruleHeaderBeforeStatus(c, "R4")
			ruleTraceHelper(c, "R5")
			ruleTraceHeaderOwned(c, "R6")
			ruleRecountFilter(c, "R7")
			ruleGroupOptionOrder(c, "R8")
			ruleHasTraceIsNonNil(c, "R9")
			ruleOnlyKnownConstantKeys(c, "R10")
			ruleOnlyAutomaticKeysAreKeptOnRemove(c, "R11")
			ruleGlobalsDoNotEscape(c, "R12")
			ruleWrapSites(c, "R13")
		},
	})
}

func isRecoverCall(in ssa.Instruction) bool {
	_, ok := builtinCall(in, "recover")
	return ok
}

// recoverClosures: closures of the module that call recover().
func recoverClosures(c *Ctx) []*ssa.Function {
	var out []*ssa.Function
	for _, f := range c.libFuncs() {
		has := false
		an.AllInstrs(f, func(in ssa.Instruction) {
			if isRecoverCall(in) {
				has = true
			}
		})
		if has {
			out = append(out, f)
		}
	}
	return out
}

func recoverGuardEdge(b *ssa.BasicBlock, succ int) bool {
	return edgeHas(b, succ, func(cond ssa.Value, truth bool) bool {
		x, k, eq, ok := an.CondAtom(cond)
		return ok && k.Value == nil && strings.HasSuffix(an.AP(x), ".recoverFunc") && eq != truth
	})
}

// ruleRecoverInstalled is C16.R1.
func ruleRecoverInstalled(c *Ctx, rule string) {
	c.R.Rule(c.R.Property+"."+rule, 4, "with a recovery option a panic raised anywhere while serving never escapes; without it nothing is recovered")
	closures := recoverClosures(c)
	isRecClosure := map[*ssa.Function]bool{}
	for _, cl := range closures {
		isRecClosure[cl] = true
	}
	assume := func(cond ssa.Value) (bool, bool) {
		x, k, eq, ok := an.CondAtom(cond)
		if ok && k.Value == nil && strings.HasSuffix(an.AP(x), ".recoverFunc") {
			return !eq, true // configured
		}
		return false, false
	}
	for _, key := range []string{"mux.(*Router).serveContext", "mux.(*Group).ServeHTTP"} {
		f := c.P.MustFunc(key)
		// the guarded defer (in the function itself or in a helper it reaches on the same receiver type)
		fam := []*ssa.Function{f}
		for fn := range an.NewGraph(c.P).Reach([]*ssa.Function{f}, func(_ *ssa.Function, e an.Edge) bool { return e.Kind == "static" }) {
			if fn != f && strings.HasPrefix(an.FuncKey(fn), strings.TrimSuffix(key, key[strings.LastIndex(key, "."):])+".") && fn.Parent() == nil {
				fam = append(fam, fn)
			}
		}
		var defers []ssa.Instruction
		for _, fn := range fam {
			an.AllInstrs(fn, func(in ssa.Instruction) {
				d, ok := in.(*ssa.Defer)
				if !ok {
					return
				}
				if mc, ok := d.Call.Value.(*ssa.MakeClosure); ok && isRecClosure[mc.Fn.(*ssa.Function)] {
					defers = append(defers, in)
				} else if g := an.StaticCallee(&d.Call); g != nil && isRecClosure[g] {
					defers = append(defers, in) // a named function that calls recover() itself, deferred directly
				}
			})
		}
		if len(defers) == 0 {
			c.R.Add(rule, key, "deferred-recover/installed", c.P.Pos(f.Pos()), false, "no deferred recover() in "+key+": a configured recovery function is never used on this path")
			continue
		}
		isDefer := func(in ssa.Instruction) bool {
			for _, d := range defers {
				if d == in {
					return true
				}
			}
			return false
		}
		// calls that can run user code (directly or below): every call except trivial context accessors
		for _, fn := range fam {
			fn := fn
			an.AllInstrs(fn, func(in ssa.Instruction) {
				call, ok := in.(*ssa.Call)
				if !ok {
					return
				}
				n := an.CalleeName(&call.Call)
				if strings.HasPrefix(n, "builtin:") || n == "types.NewContext" {
					return
				}
				protect := strings.HasPrefix(n, "dynamic:") || strings.HasPrefix(n, "invoke:") || strings.HasSuffix(n, ".Handler") || strings.HasSuffix(n, ".handle") || strings.HasSuffix(n, ".serveContext")
				// (a Group protects everything it runs: the matchers are user code, and a router attached with Group.Add
				// may have been built without a recovery option of its own — D31)
				if !protect {
					return
				}
				path := (&an.Query{Assume: assume, Deep: deepDefault, Target: func(t ssa.Instruction) bool { return t == in }, Block: isDefer}).Search(an.Entry(f))
				o := c.R.Add(rule, key, "call:"+n+"/after-deferred-recover", c.pos(in), path == nil, ifelse(path == nil, "with a recovery function configured the deferred recover is installed before this call", "with a recovery function configured this call can run before the deferred recover is installed: a panic below it escapes ServeHTTP"))
				if path != nil {
					o.Path = c.P.PathString(path)
				}
			})
		}
		for _, d := range defers {
			dom := an.DominatedByEdge(d, recoverGuardEdge)
			c.R.Add(rule, key, "deferred-recover/only-when-configured", c.pos(d), dom, ifelse(dom, "the defer is installed only on the recoverFunc != nil edge", "recover() is installed even without a recovery option: panics no longer reach the caller of ServeHTTP unchanged"))
		}
	}
	// every recover() sits in a closure that is only deferred
	for _, cl := range closures {
		good := cl.Parent() != nil
		why := "recover() is called in a named function"
		if !good {
			// a named function: recover() works there only when the function itself is the deferred call
			n, bad := 0, ""
			for _, fn := range c.libFuncs() {
				an.AllInstrs(fn, func(in ssa.Instruction) {
					call := an.CallOf(in)
					if call == nil || an.StaticCallee(call) != cl {
						return
					}
					n++
					if _, isDefer := in.(*ssa.Defer); !isDefer {
						bad = c.pos(in)
					}
				})
			}
			good = n > 0 && bad == ""
			if bad != "" {
				why = "the function that calls recover() is called as an ordinary function at " + bad + " (not deferred itself): recover() returns nil there and the panic goes on"
			}
		}
		if good && cl.Parent() != nil {
			an.AllInstrs(cl.Parent(), func(in ssa.Instruction) {
				if mc, ok := in.(*ssa.MakeClosure); ok && mc.Fn == ssa.Value(cl) {
					for _, r := range *mc.Referrers() {
						if _, isDefer := r.(*ssa.Defer); !isDefer {
							good = false
							why = "the recovering closure is used other than in a defer"
						}
					}
				}
			})
		}
		c.R.Add(rule, c.fk(cl), "recover/in-deferred-closure", c.P.Pos(cl.Pos()), good, ifelse(good, "recover() lives in a function that is only ever the deferred call itself", why))
	}
}

// ruleRecoverClosure is C16.R2.
// paramOrItsTarget: v is a parameter, or what a pointer parameter points to (*f).
func paramOrItsTarget(v ssa.Value) (*ssa.Parameter, bool) {
	if p, ok := v.(*ssa.Parameter); ok {
		return p, true
	}
	if u, ok := v.(*ssa.UnOp); ok && u.Op == token.MUL {
		if p, ok := u.X.(*ssa.Parameter); ok {
			return p, true
		}
	}
	return nil, false
}

func ruleRecoverClosure(c *Ctx, rule string) {
	c.R.Rule(c.R.Property+"."+rule, 1, "the recovery function receives the original panic value exactly once")
	for _, cl := range recoverClosures(c) {
		var rec ssa.Value
		an.AllInstrs(cl, func(in ssa.Instruction) {
			if isRecoverCall(in) {
				rec = in.(ssa.Value)
			}
		})
		var calls []*ssa.Call
		an.AllInstrs(cl, func(in ssa.Instruction) {
			if call, ok := in.(*ssa.Call); ok && strings.HasPrefix(an.CalleeName(&call.Call), "dynamic:") {
				if strings.HasSuffix(an.CalleeName(&call.Call), ".recoverFunc") {
					calls = append(calls, call)
				} else if par, isPar := paramOrItsTarget(call.Call.Value); isPar {
					// the configured function handed to a named recovering function by every defer site
					args := argsOfParam(par)
					all := len(args) > 0
					for _, a := range args {
						if !strings.HasSuffix(an.AP(a), ".recoverFunc") {
							all = false
						}
					}
					if all {
						calls = append(calls, call)
					}
				}
			}
		})
		if len(calls) != 1 {
			c.R.Add(rule, c.fk(cl), "recoverFunc-call/exactly-one", c.P.Pos(cl.Pos()), false, fmt.Sprintf("the recovering closure calls the configured function %d times", len(calls)))
			continue
		}
		call := calls[0]
		var why []string
		// arguments: (writer, recovered value)
		if len(call.Call.Args) != 2 || call.Call.Args[1] != rec {
			why = append(why, "the value passed is "+c.O.Of(call.Call.Args[len(call.Call.Args)-1]).String()+", not the result of recover() itself")
		}
		if len(call.Call.Args) == 2 && !strings.HasSuffix(an.AP(call.Call.Args[0]), ":w") {
			why = append(why, "the writer passed is "+an.AP(call.Call.Args[0]))
		}
		dom := an.DominatedByEdge(call, func(b *ssa.BasicBlock, succ int) bool {
			return edgeHas(b, succ, func(cond ssa.Value, truth bool) bool {
				x, k, eq, ok := an.CondAtom(cond)
				return ok && x == rec && k.Value == nil && eq != truth
			})
		})
		if !dom {
			why = append(why, "not behind the recovered-value != nil test")
		}
		loop := (&an.Query{Target: func(t ssa.Instruction) bool { return t == ssa.Instruction(call) }}).Search(an.After(call)) != nil
		if loop {
			why = append(why, "the call sits in a loop")
		}
		// the guard is complete: with a non-nil recovered value every path to the return calls it
		miss := (&an.Query{
			Assume: func(cond ssa.Value) (bool, bool) {
				x, k, eq, ok := an.CondAtom(cond)
				if ok && x == rec && k.Value == nil {
					return !eq, true
				}
				return false, false
			},
			Target: func(t ssa.Instruction) bool {
				switch t.(type) {
				case *ssa.Return, *ssa.Panic:
					return true
				}
				return false
			},
			Block: func(t ssa.Instruction) bool { return t == ssa.Instruction(call) },
		}).Search(an.After(rec.(ssa.Instruction)))
		if miss != nil {
			why = append(why, "a recovered panic can be swallowed or re-raised without calling the recovery function")
		}
		// nothing re-panics after recovery either
		repanic := false
		an.AllInstrs(cl, func(in ssa.Instruction) {
			if _, ok := in.(*ssa.Panic); ok && !isRangeFuncPanic(in) {
				repanic = true
			}
		})
		if repanic {
			why = append(why, "the recovering closure panics again: that value escapes ServeHTTP")
		}
		c.R.Add(rule, c.fk(cl), "recoverFunc-call/once-with-writer-and-recovered-value", c.pos(call), len(why) == 0, ifelse(len(why) == 0, "called once, on r != nil, with (w, recover())", strings.Join(why, "; ")))
	}
}

// ruleRecoverOptionFlow is C16.R3.
func ruleRecoverOptionFlow(c *Ctx, rule string) {
	c.R.Rule(c.R.Property+"."+rule, 3, "the recovery option reaches Router, Group and the routers created by Group.New")
	for _, key := range []string{"mux.NewRouter", "mux.NewGroup"} {
		f := c.P.MustFunc(key)
		good := false
		got := ""
		an.AllInstrs(f, func(in ssa.Instruction) {
			if _, field, val, ok := fieldStoreAny(in); ok && field == "recoverFunc" {
				got = c.O.Of(val).String()
				// the recoverFunc field of the *options value a call returned (buildOption or a wrapper of it)
				if u, isU := val.(*ssa.UnOp); isU {
					if fa, isFA := u.X.(*ssa.FieldAddr); isFA && an.FieldName(fa.X.Type(), fa.Field) == "recoverFunc" {
						base := fa.X
						if ex, isEx := base.(*ssa.Extract); isEx {
							base = ex.Tuple
						}
						if call, isCall := base.(*ssa.Call); isCall {
							reach := an.NewGraph(c.P).Reach([]*ssa.Function{an.StaticCallee(&call.Call)}, nil)
							_, good = reach[c.P.MustFunc("mux.buildOption")]
						}
					}
				}
			}
		})
		c.R.Add(rule, key, "store:recoverFunc=buildOption(o).recoverFunc", c.P.Pos(f.Pos()), good, ifelse(good, "the configured function is stored ("+got+")", "the constructor stores "+ifelse(got == "", "nothing", got)+" as recovery function: the option is lost"))
	}
	// inheritance: Group.New builds the router from (group options, own options) — shared with the option-order rule
	{
		sub := an.NewReport(c.R.Property)
		cc := &Ctx{P: c.P, A: c.A, R: sub, O: c.O}
		ruleGroupOptionOrder(cc, "X")
		for _, o := range sub.Obls {
			c.R.Add(rule, o.Func, o.Construct, o.At, o.OK, ifelse(o.OK, o.Msg, o.Msg+" — the group's recovery option is not inherited (or overrides the router's own)"))
		}
	}
}

// ruleRecoverRelease is C16.R4.
func ruleRecoverRelease(c *Ctx, rule string) {
	c.R.Rule(c.R.Property+"."+rule, 2, "later requests are served normally: the request context returns to the pool on the recovery path")
	destroy := c.P.MustFunc("types.(*Context).Destroy")
	r := c.P.MustFunc("mux.(*Router).ServeHTTP")
	serve := c.P.MustFunc("mux.(*Router).serveContext")
	// Router: Destroy is called after serveContext (which recovers internally) on the only path
	path := (&an.Query{
		Target: func(t ssa.Instruction) bool { _, ok := t.(*ssa.Return); return ok },
		Block:  func(t ssa.Instruction) bool { _, ok := calleeIs(t, destroy); return ok },
	}).Search(an.Entry(r))
	callsServe := len(an.Calls(r, func(n string, _ *ssa.CallCommon) bool { return n == an.FuncKey(serve) })) == 1
	c.R.Add(rule, c.fk(r), "release-after-serveContext", c.P.Pos(r.Pos()), path == nil && callsServe, ifelse(path == nil && callsServe, "every return of Router.ServeHTTP released the context; recovery happens inside serveContext", "Router.ServeHTTP can return without releasing the context"))
	g := groupServe(c)
	deferred := false
	an.AllInstrs(g, func(in ssa.Instruction) {
		if d, ok := in.(*ssa.Defer); ok {
			if callee := an.StaticCallee(&d.Call); callee == destroy {
				deferred = an.DominatedByInstr(d, func(ssa.Instruction) bool { return false }) || true
				// the defer must come before any call that can panic
				p := (&an.Query{Target: func(t ssa.Instruction) bool {
					call, ok := t.(*ssa.Call)
					return ok && (strings.HasPrefix(an.CalleeName(&call.Call), "dynamic:") || strings.HasPrefix(an.CalleeName(&call.Call), "invoke:") || strings.HasSuffix(an.CalleeName(&call.Call), ".serveContext"))
				}, Block: func(t ssa.Instruction) bool { return t == in }}).Search(an.Entry(g))
				deferred = p == nil
			}
		}
	})
	c.R.Add(rule, c.fk(g), "release-deferred-before-user-code", c.P.Pos(g.Pos()), deferred, ifelse(deferred, "Destroy is deferred before any matcher, router or handler runs", "Group.ServeHTTP does not defer the release of its context before user code runs: a recovered panic leaks it"))
}

// ruleTraceShortCircuit is C18.R1.
func ruleTraceShortCircuit(c *Ctx, rule string) {
	a := c.A
	f := a.TreeHandler
	c.R.Rule(c.R.Property+"."+rule, 1, "with a TRACE handler configured a TRACE request to any path — registered or not — is answered by that handler")
	var methodP *ssa.Parameter
	for _, p := range f.Params[1:] {
		if p.Type().String() == "string" {
			methodP = p
		}
	}
	assume := func(cond ssa.Value) (bool, bool) {
		v, neg := stripNot(cond)
		if strings.HasSuffix(an.AP(v), "."+a.FHasTrace) {
			return !neg, true
		}
		if x, k, eq, ok := an.CondAtom(cond); ok && x == ssa.Value(methodP) && an.ConstKey(k) == `"TRACE"` {
			return eq, true
		}
		return false, false
	}
	g := an.NewGraph(c.P)
	reachesMatcher := func(fn *ssa.Function) bool {
		reach := g.Reach([]*ssa.Function{fn}, nil)
		for _, b := range a.Backtrackers {
			if _, ok := reach[b]; ok {
				return true
			}
		}
		return false
	}
	path := (&an.Query{Assume: assume, Target: func(t ssa.Instruction) bool {
		if call, ok := t.(*ssa.Call); ok {
			if callee := an.StaticCallee(&call.Call); callee != nil && reachesMatcher(callee) {
				return true
			}
		}
		if r, ok := t.(*ssa.Return); ok && len(r.Results) == 3 {
			h := c.O.Of(an.ReturnValue(r, 1)).String()
			return !strings.HasSuffix(h, "."+a.FTrace)
		}
		return false
	}}).Search(an.Entry(f))
	o := c.R.Add(rule, c.fk(f), "hasTrace&&method==TRACE/answered-before-matching", c.P.Pos(f.Pos()), path == nil, ifelse(path == nil, "with hasTrace and method TRACE the only exits return the TRACE handler, before any matching", "a TRACE request can reach the matcher or a non-TRACE return although a TRACE handler is configured"))
	if path != nil {
		o.Path = c.P.PathString(path)
	}
}

// isResponseWriter: static type is net/http.ResponseWriter.
func isResponseWriter(t types.Type) bool {
	n, ok := types.Unalias(t).(*types.Named)
	return ok && n.Obj().Pkg() != nil && n.Obj().Pkg().Path() == "net/http" && n.Obj().Name() == "ResponseWriter"
}

// ruleHeaderBeforeStatus is C18.R4.
func ruleHeaderBeforeStatus(c *Ctx, rule string) {
	c.R.Rule(c.R.Property+"."+rule, 1, "headers are actually sent with the response: none is set after the status line or the body started")
	n := 0
	for _, f := range c.libFuncs() {
		an.AllInstrs(f, func(in ssa.Instruction) {
			call, ok := in.(*ssa.Call)
			if !ok || !call.Call.IsInvoke() || !isResponseWriter(call.Call.Value.Type()) {
				return
			}
			m := call.Call.Method.Name()
			if m != "WriteHeader" && m != "Write" {
				return
			}
			n++
			w := an.AP(call.Call.Value)
			var late ssa.Instruction
			path := (&an.Query{Target: func(t ssa.Instruction) bool {
				tc := an.CallOf(t)
				if tc == nil {
					return false
				}
				name := an.CalleeName(tc)
				if name != "net/http.Header.Set" && name != "net/http.Header.Add" && name != "net/http.Header.Del" {
					return false
				}
				hc, ok := tc.Args[0].(*ssa.Call)
				if !ok || !hc.Call.IsInvoke() || hc.Call.Method.Name() != "Header" {
					return false
				}
				if an.AP(hc.Call.Value) == w {
					late = t
					return true
				}
				return false
			}}).Search(an.After(in))
			construct := fmt.Sprintf("%s.%s/no-header-write-after", w, m)
			if path == nil {
				c.R.Add(rule, c.fk(f), construct, c.pos(in), true, "no header of this writer is modified after "+m)
			} else {
				o := c.R.Add(rule, c.fk(f), construct, c.pos(in), false, "a header of "+w+" is set at "+c.pos(late)+" after "+m+" already sent the status line: the header never reaches the client")
				o.Path = c.P.PathString(path)
			}
		})
	}
	if n == 0 {
		c.R.Note("%s: no WriteHeader/Write on a ResponseWriter in the library", rule)
	}
}

// ruleTraceHelper is C18.R5.
func ruleTraceHelper(c *Ctx, rule string) {
	c.R.Rule(c.R.Property+"."+rule, 4, "the bundled Trace helper replies 200, Content-Type message/http, with the HTML-escaped dump of the request (body only when asked)")
	f := c.P.MustFunc("trace.Trace")
	var dump *ssa.Call
	// the helper and the functions of its package it calls (writeMessage-style extractions); a term taken inside
	// such a callee is rewritten with the arguments of its call site in Trace
	cluster := []*ssa.Function{f}
	callSite := map[*ssa.Function]*ssa.Call{}
	an.AllInstrs(f, func(in ssa.Instruction) {
		if call, ok := in.(*ssa.Call); ok {
			if g := an.StaticCallee(&call.Call); g != nil && an.InModule(g) && g.Pkg == f.Pkg && len(g.Blocks) > 0 && callSite[g] == nil {
				callSite[g] = call
				cluster = append(cluster, g)
			}
		}
	})
	termOf := func(v ssa.Value, in ssa.Instruction) *an.Term {
		t := c.O.Of(v)
		if cs := callSite[in.Parent()]; cs != nil {
			var args []*an.Term
			for _, a := range an.CallArgs(&cs.Call) {
				args = append(args, c.O.Of(a))
			}
			t = an.Substitute(t, in.Parent(), args)
		}
		return t
	}
	forEach := func(visit func(in ssa.Instruction)) {
		for _, fn := range cluster {
			an.AllInstrs(fn, visit)
		}
	}
	forEach(func(in ssa.Instruction) {
		call, ok := in.(*ssa.Call)
		if !ok {
			return
		}
		switch {
		case an.CalleeName(&call.Call) == "net/http/httputil.DumpRequest":
			dump = call
			good := an.AP(call.Call.Args[0]) == "p:r" && an.AP(call.Call.Args[1]) == "p:body"
			c.R.Add(rule, c.fk(f), "dump:DumpRequest(r,body)", c.pos(in), good, ifelse(good, "the request and the caller's body flag are dumped", "DumpRequest is called with ("+an.AP(call.Call.Args[0])+", "+an.AP(call.Call.Args[1])+")"))
		case call.Call.IsInvoke() && call.Call.Method.Name() == "WriteHeader":
			k, isC := call.Call.Args[0].(*ssa.Const)
			good := isC && k.Value != nil && k.Int64() == 200
			c.R.Add(rule, c.fk(f), "status:200", c.pos(in), good, ifelse(good, "status 200", "the helper does not reply 200"))
		case call.Call.IsInvoke() && call.Call.Method.Name() == "Write" && isResponseWriter(call.Call.Value.Type()):
			t := termOf(call.Call.Args[0], in).String()
			good := strings.HasPrefix(t, "convert<[]byte>(call<html.EscapeString>(convert<string>(") && strings.Contains(t, "net/http/httputil.DumpRequest")
			c.R.Add(rule, c.fk(f), "body:EscapeString(dump)", c.pos(in), good, ifelse(good, "the body is html.EscapeString of the dump", "the helper writes "+t+": not the HTML-escaped dump"))
		case an.CalleeName(&call.Call) == "net/http.Header.Set":
			n, _ := strConst(call.Call.Args[1])
			v, _ := strConst(call.Call.Args[2])
			if n == "Content-Type" {
				good := v == "message/http"
				c.R.Add(rule, c.fk(f), "content-type:message/http", c.pos(in), good, ifelse(good, "Content-Type: message/http", "Content-Type is "+v))
			}
		}
	})
	_ = dump
	// a Content-Length the helper sets itself must be the length of what it writes
	var written *an.Term
	forEach(func(in ssa.Instruction) {
		if call, ok := in.(*ssa.Call); ok && call.Call.IsInvoke() && call.Call.Method.Name() == "Write" && isResponseWriter(call.Call.Value.Type()) {
			written = termOf(call.Call.Args[0], in)
		}
	})
	forEach(func(in ssa.Instruction) {
		call, ok := in.(*ssa.Call)
		if !ok || an.CalleeName(&call.Call) != "net/http.Header.Set" {
			return
		}
		if n, _ := strConst(call.Call.Args[1]); n != "Content-Length" {
			return
		}
		v := termOf(call.Call.Args[2], in)
		good := false
		if written != nil && v.Op == "call" && (v.S == "strconv.Itoa" || v.S == "strconv.FormatInt") && len(v.Args) > 0 {
			l := v.Args[0]
			if l.Op == "convert" && len(l.Args) == 1 {
				l = l.Args[0]
			}
			if l.Op == "call" && l.S == "builtin:len" && len(l.Args) == 1 {
				w := written
				good = l.Args[0].String() == w.String() || (w.Op == "convert" && len(w.Args) == 1 && l.Args[0].String() == w.Args[0].String())
			}
		}
		c.R.Add(rule, c.fk(f), "content-length=len(body written)", c.pos(in), good, ifelse(good, "Content-Length is the length of the bytes written", "Content-Length is "+v.String()+", not the length of the body the helper writes: a real server truncates or rejects the response when the escaped dump is longer than the raw one"))
	})
	m := c.P.MustFunc("mux.Trace")
	okFwd := false
	an.AllInstrs(m, func(in ssa.Instruction) {
		if call, ok := calleeIs(in, f); ok {
			okFwd = len(call.Args) == 3 && an.AP(call.Args[0]) == "p:w" && an.AP(call.Args[1]) == "p:r" && an.AP(call.Args[2]) == "p:body"
		}
	})
	c.R.Add(rule, c.fk(m), "forwards:(w,r,body)", c.P.Pos(m.Pos()), okFwd, ifelse(okFwd, "mux.Trace forwards its three arguments in order", "mux.Trace does not forward (w, r, body) unchanged"))
}

// ruleHeadWriter is C08.R5.
func ruleHeadWriter(c *Ctx, rule string) {
	c.R.Rule(c.R.Property+"."+rule, 4, "a HEAD request runs the GET handler but delivers no body bytes, and Content-Length equals the bytes the handler wrote")
	serve := c.P.MustFunc("mux.(*Router).serveContext")
	write := c.P.MustFunc("mux.(*headResponse).Write")
	wrapT := lookupNamed(c.A.MuxPkg, "headResponse")
	// the wrapper is installed exactly on served HEAD requests and wraps the original writer
	installed := false
	headFuncs := []*ssa.Function{serve}
	for fn := range an.NewGraph(c.P).Reach([]*ssa.Function{serve}, func(_ *ssa.Function, e an.Edge) bool { return e.Kind == "static" }) {
		if fn != serve && strings.HasPrefix(an.FuncKey(fn), "mux.") {
			headFuncs = append(headFuncs, fn)
		}
	}
	for _, hf := range headFuncs {
		hf := hf
		an.AllInstrs(hf, func(in ssa.Instruction) {
			al, ok := in.(*ssa.Alloc)
			if !ok || !isNamed(al.Type().(*types.Pointer).Elem(), wrapT) {
				return
			}
			installed = true
			headEdge := func(b *ssa.BasicBlock, succ int) bool {
				return edgeHas(b, succ, func(cond ssa.Value, truth bool) bool {
					x, k, eq, ok := an.CondAtom(cond)
					return ok && strings.HasSuffix(an.AP(x), ".Method") && an.ConstKey(k) == `"HEAD"` && eq == truth
				})
			}
			domHead := an.DominatedByEdgeDeep([]*ssa.Function{serve}, in, headEdge, deepDefault)
			// the wrapper is not used on other methods either: no alloc reachable with Method != HEAD is implied by dominance
			t := c.O.Of(al)
			embeds := ""
			// the field (embedded or named) that holds the wrapped http.ResponseWriter
			wrapped := map[string]bool{"ResponseWriter": true}
			if st, ok := al.Type().(*types.Pointer).Elem().Underlying().(*types.Struct); ok {
				for i := 0; i < st.NumFields(); i++ {
					if isResponseWriter(st.Field(i).Type()) {
						wrapped[st.Field(i).Name()] = true
					}
				}
			}
			for i, n := range t.Names {
				if wrapped[n] {
					embeds = t.Args[i].String()
				}
			}
			okEmbed := embeds == "cell<w>()" || strings.Contains(embeds, "param:w") || strings.Contains(embeds, "cell:w") || strings.HasPrefix(embeds, "param:")
			good := domHead && okEmbed
			c.R.Add(rule, c.fk(hf), "wrap:headResponse{ResponseWriter:w}/on:Method==HEAD", c.pos(in), good, ifelse(good, "on HEAD the handler gets a wrapper around the original writer", fmt.Sprintf("the HEAD wrapper is installed wrongly (behind Method==HEAD: %v, embeds %s)", domHead, embeds)))
			// the wrapper reaches the CallFunc: stored into the writer cell, or returned to the caller that stores it
			handed := false
			for _, r := range *al.Referrers() {
				mi, ok := r.(*ssa.MakeInterface)
				if !ok {
					if ret, isRet := r.(*ssa.Return); isRet && len(ret.Results) > 0 {
						handed = true
					}
					continue
				}
				for _, rr := range *mi.Referrers() {
					switch y := rr.(type) {
					case *ssa.Store:
						if y.Val == ssa.Value(mi) {
							handed = true
						}
					case *ssa.Return:
						handed = true
					case *ssa.Phi:
						handed = true
					}
				}
			}
			c.R.Add(rule, c.fk(hf), "wrap:passed-to-handler", c.pos(in), handed, ifelse(handed, "the wrapper replaces the writer passed to the handler", "the HEAD wrapper is built but not handed to the handler"))
		})
	}
	if !installed {
		c.R.Add(rule, c.fk(serve), "wrap:headResponse{ResponseWriter:w}/on:Method==HEAD", c.P.Pos(serve.Pos()), false, "serveContext no longer wraps the writer for HEAD requests: the GET body is delivered")
	}
	// Write: swallows, counts, sets Content-Length
	forwards := false
	an.AllInstrs(write, func(in ssa.Instruction) {
		if call, ok := in.(*ssa.Call); ok && call.Call.IsInvoke() && (call.Call.Method.Name() == "Write" || call.Call.Method.Name() == "WriteHeader") {
			forwards = true
		}
	})
	c.R.Add(rule, c.fk(write), "write:swallows-body", c.P.Pos(write.Pos()), !forwards, ifelse(!forwards, "the wrapper's Write never reaches the embedded writer's Write/WriteHeader", "the HEAD wrapper forwards body bytes to the client"))
	bytesParam := "param:?"
	for _, p := range write.Params {
		if _, isSlice := p.Type().Underlying().(*types.Slice); isSlice {
			bytesParam = "param:" + p.Name()
		}
	}
	for _, r := range an.Returns(write) {
		n := c.O.Of(r.Results[0]).String()
		good := n == "call<builtin:len>("+bytesParam+")" && an.IsNilConst(r.Results[1])
		c.R.Add(rule, c.fk(write), "write:returns(len(arg),nil)", c.pos(r), good, ifelse(good, "reports all bytes as written", "the wrapper's Write returns ("+n+", "+c.O.Of(r.Results[1]).String()+"): handlers see short writes or errors on HEAD"))
	}
	// every path through Write adds len(arg) to the counter and then sets Content-Length to its decimal rendering
	isCount := func(in ssa.Instruction) bool {
		base, field, val, ok := fieldStoreAny(in)
		if !ok || base != "recv" || field != "size" {
			return false
		}
		t := c.O.Of(val).String()
		return t == "binop<+>(recv.size, call<builtin:len>("+bytesParam+"))" || t == "binop<+>(call<builtin:len>("+bytesParam+"), recv.size)"
	}
	isLength := func(in ssa.Instruction) bool {
		name, val, ok := headerSetLike(in)
		if !ok {
			return false
		}
		n, _ := strConst(name)
		v := c.O.Of(val).String()
		return n == "Content-Length" && strings.HasPrefix(v, "call<strconv.Itoa>(") && strings.Contains(v, "recv.size")
	}
	isRet := func(t ssa.Instruction) bool { _, ok := t.(*ssa.Return); return ok }
	otherSizeStore := false
	an.AllInstrs(write, func(in ssa.Instruction) {
		if base, field, _, ok := fieldStoreAny(in); ok && base == "recv" && field == "size" && !isCount(in) {
			otherSizeStore = true
		}
	})
	pathC := (&an.Query{Target: isRet, Block: isCount}).Search(an.Entry(write))
	counted := pathC == nil && !otherSizeStore
	c.R.Add(rule, c.fk(write), "write:counts-every-write", c.P.Pos(write.Pos()), counted, ifelse(counted, "size += len(arg) on every path, and nothing else writes the counter", "the wrapper does not add len(arg) to its counter on every Write"))
	lengthSet := true
	an.AllInstrs(write, func(in ssa.Instruction) {
		if isCount(in) && (&an.Query{Target: isRet, Block: isLength}).Search(an.After(in)) != nil {
			lengthSet = false
		}
	})
	if pathC != nil {
		lengthSet = false
	}
	c.R.Add(rule, c.fk(write), "write:Content-Length=Itoa(size)", c.P.Pos(write.Pos()), lengthSet, ifelse(lengthSet, "after counting, every path sets Content-Length to the decimal counter", "Content-Length is not set to the decimal rendering of the byte counter"))
	// the header net/http derives from the body on GET: a Content-Type the handler did not set is detected from the
	// bytes of the first Write. The wrapper swallows the bytes, so it has to do the same or HEAD lacks that header.
	sniffs, guarded := false, false
	an.AllInstrs(write, func(in ssa.Instruction) {
		hname, hval, ok := headerSetLike(in)
		if !ok {
			return
		}
		if n, _ := strConst(hname); n != "Content-Type" {
			return
		}
		if c.O.Of(hval).String() != "call<net/http.DetectContentType>("+bytesParam+")" {
			return
		}
		sniffs = true
		// only when the handler set none: behind "no Content-Type key / value in the header"
		guarded = an.DominatedByEdge(in, func(b *ssa.BasicBlock, succ int) bool {
			return edgeHas(b, succ, func(cond ssa.Value, truth bool) bool {
				if ex, isEx := cond.(*ssa.Extract); isEx && ex.Index == 1 {
					if lk, isLk := ex.Tuple.(*ssa.Lookup); isLk {
						k, _ := strConst(lk.Index)
						return k == "Content-Type" && !truth
					}
				}
				x, k, eq, ok := an.CondAtom(cond)
				if !ok {
					return false
				}
				if s, isS := strConst(k); !isS || s != "" {
					return false
				}
				call, isCall := x.(*ssa.Call)
				if !isCall || an.CalleeName(&call.Call) != "net/http.Header.Get" {
					return false
				}
				n, _ := strConst(call.Call.Args[1])
				return n == "Content-Type" && eq == truth
			})
		})
	})
	// … from the first bytes: net/http's Write returns before anything is committed when it is handed no bytes, so
	// an empty first Write detects nothing (DetectContentType of nothing is text/plain, and GET would go on to detect
	// from the first real bytes)
	if sniffs && guarded {
		nonEmpty := false
		an.AllInstrs(write, func(in ssa.Instruction) {
			_, hval, ok := headerSetLike(in)
			if !ok || c.O.Of(hval).String() != "call<net/http.DetectContentType>("+bytesParam+")" {
				return
			}
			nonEmpty = an.DominatedByEdge(in, func(b *ssa.BasicBlock, succ int) bool {
				return edgeHas(b, succ, func(cond ssa.Value, truth bool) bool {
					bare, neg := stripNot(cond)
					bo, isB := bare.(*ssa.BinOp)
					if !isB {
						return false
					}
					holds := truth != neg
					for _, v := range []ssa.Value{bo.X, bo.Y} {
						if c.O.Of(v).String() != "call<builtin:len>("+bytesParam+")" {
							continue
						}
						at0, ok0 := cmpWithConst(bo, v, 0)
						at1, ok1 := cmpWithConst(bo, v, 1)
						if ok0 && ok1 && at0 != holds && at1 == holds {
							return true
						}
					}
					return false
				})
			})
		})
		c.R.Add(rule, c.fk(write), "write:detects-from-the-first-non-empty-Write", c.P.Pos(write.Pos()), nonEmpty, ifelse(nonEmpty, "the detection is behind len(bytes) > 0", "the detection also runs for an empty first Write: DetectContentType of no bytes is text/plain, while net/http returns from an empty Write before committing anything and detects from the first real bytes — a handler that writes \"\" and then HTML answers text/html on GET and text/plain on HEAD"))
	}
	c.R.Add(rule, c.fk(write), "write:detects-unset-Content-Type", c.P.Pos(write.Pos()), sniffs && guarded, ifelse(sniffs && guarded, "a Content-Type the handler did not set is detected from the written bytes, as net/http does for GET", ifelse(!sniffs, "the wrapper swallows the bytes from which net/http would detect a Content-Type the handler did not set: GET carries Content-Type, HEAD of the same handler does not", "the wrapper overwrites the handler's own Content-Type with a detected one")))
	// the header is committed by the first Write: on GET net/http sends status 200 and freezes the header then, and a
	// later WriteHeader or header change has no effect. The wrapper swallows the Write, so it has to emulate that —
	// which needs a WriteHeader of its own (the promoted method of the embedded writer goes straight through).
	ownWriteHeader := false
	for _, recvT := range []types.Type{wrapT, types.NewPointer(wrapT)} {
		ms := types.NewMethodSet(recvT)
		for i := 0; i < ms.Len(); i++ {
			if fn, ok := ms.At(i).Obj().(*types.Func); ok && fn.Name() == "WriteHeader" && len(ms.At(i).Index()) == 1 {
				ownWriteHeader = true
			}
		}
	}
	c.R.Add(rule, "mux.headResponse", "commits-the-header-at-the-first-Write", c.P.Pos(wrapT.Obj().Pos()), ownWriteHeader, ifelse(ownWriteHeader, "the wrapper has a WriteHeader of its own", "the wrapper does not intercept WriteHeader, so the first Write does not commit status and header as it does on GET: a handler that writes a body and then calls WriteHeader(202) or sets a header (or panics into a status-writing recovery) answers 200 / old header on GET and 202 / new header on HEAD"))
	// no bypass methods
	bypass := ""
	for i := 0; i < wrapT.NumMethods(); i++ {
		switch wrapT.Method(i).Name() {
		case "Unwrap", "ReadFrom", "Flush", "Hijack":
			bypass = wrapT.Method(i).Name()
		}
	}
	// a second way in for body bytes (WriteString — io.WriteString prefers it) has to go through the wrapper's own
	// Write, or it repeats only a part of what Write does (the byte count without the Content-Type detection)
	for i := 0; i < wrapT.NumMethods(); i++ {
		m := wrapT.Method(i)
		if m.Name() != "WriteString" && m.Name() != "WriteBytes" {
			continue
		}
		fn := c.P.Func("mux.(*headResponse)." + m.Name())
		if fn == nil {
			fn = c.P.Func("mux.headResponse." + m.Name())
		}
		delegates := false
		if fn != nil {
			an.AllInstrs(fn, func(in ssa.Instruction) {
				if call := an.CallOf(in); call != nil {
					if g := an.StaticCallee(call); g != nil && an.Origin(g) == an.Origin(write) {
						delegates = true
					}
				}
			})
		}
		c.R.Add(rule, "mux.headResponse", "extra-body-sink:"+m.Name()+"/delegates-to-Write", c.P.Pos(m.Pos()), delegates, ifelse(delegates, "the extra method hands its bytes to Write", "the wrapper has a second way in for body bytes ("+m.Name()+", which io.WriteString prefers to Write) that does not go through Write: it repeats the byte count but not the rest (a Content-Type the handler did not set is detected by GET and missing on HEAD)"))
	}
	c.R.Add(rule, "mux.headResponse", "no-bypass-methods", c.P.Pos(wrapT.Obj().Pos()), bypass == "", ifelse(bypass == "", "the wrapper declares no Unwrap/ReadFrom/Flush/Hijack", "the wrapper declares "+bypass+": http.ResponseController or io.Copy can reach the real writer and deliver a body"))
}
