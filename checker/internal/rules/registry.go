package rules

import (
	"sort"

	"golang.org/x/tools/go/ssa"

	"muxlint/internal/an"
)

// Ctx is what a rule sees.
type Ctx struct {
	P *an.Prog
	A *Anchors
	R *an.Report
	O *an.Originator

	segPreds map[*ssa.Function]segPredicate
}

func NewCtx(p *an.Prog, a *Anchors, r *an.Report) *Ctx {
	indexCallSites(p)
	indexDerivedSets(p)
	return &Ctx{P: p, A: a, R: r, O: an.NewOriginator(p)}
}

// callSitesOf: static call sites of every module function (for resolving a parameter to the arguments it receives).
var callSitesOf map[*ssa.Function][]*ssa.CallCommon
var callSitesByCaller map[*ssa.Function][]*ssa.CallCommon
var callSitesProg *an.Prog

func indexCallSites(p *an.Prog) {
	if callSitesProg == p {
		return
	}
	callSitesProg = p
	an.RegisterCallers(p.Funcs)
	callSitesOf = map[*ssa.Function][]*ssa.CallCommon{}
	callSitesByCaller = map[*ssa.Function][]*ssa.CallCommon{}
	for _, f := range p.Funcs {
		an.AllInstrs(f, func(in ssa.Instruction) {
			if call := an.CallOf(in); call != nil {
				if g := an.StaticCallee(call); g != nil {
					callSitesOf[g] = append(callSitesOf[g], call)
					callSitesByCaller[f] = append(callSitesByCaller[f], call)
				}
			}
		})
	}
}

// argsOfParam: the argument values a parameter receives at the static call sites of its function (nil if none).
func argsOfParam(v ssa.Value) []ssa.Value {
	par, ok := v.(*ssa.Parameter)
	if !ok {
		return nil
	}
	f := an.Origin(par.Parent())
	idx := -1
	for i, p := range f.Params {
		if p == par {
			idx = i
		}
	}
	if idx < 0 {
		return nil
	}
	var out []ssa.Value
	for _, call := range callSitesOf[f] {
		args := an.CallArgs(call)
		if idx < len(args) {
			out = append(out, args[idx])
		}
	}
	return out
}

// Spec describes the check of one property.
type Spec struct {
	ID          string
	Explanation string
	Assumptions []string
	Run         func(c *Ctx)
}

var registry = map[string]*Spec{}

func register(s *Spec) { registry[s.ID] = s }

func Lookup(id string) *Spec { return registry[id] }

func Properties() []string {
	var out []string
	for k := range registry {
		out = append(out, k)
	}
	sort.Strings(out)
	return out
}

var commonAssumptions = []string{
	"patterns reach the tree only through Tree.Add; requests only through Tree.Handler",
	"user-supplied functions (handlers of type T, CallFunc, Matcher, InterceptorFunc, RecoverFunc, BuildNodeHandler, Middleware) are boundary calls and are not analysed",
	"go/types and go/ssa represent the source faithfully (cross-checked with a second front end in the thorough tier)",
}

// helpers shared by rule files -------------------------------------------------

func (c *Ctx) pos(in ssa.Instruction) string { return c.P.InstrPos(in) }

func (c *Ctx) fk(f *ssa.Function) string { return an.FuncKey(f) }

// libFuncs: library functions with bodies.
func (c *Ctx) libFuncs() []*ssa.Function {
	var out []*ssa.Function
	for _, f := range c.P.Funcs {
		if an.IsLibrary(f) && len(f.Blocks) > 0 {
			out = append(out, f)
		}
	}
	return out
}
