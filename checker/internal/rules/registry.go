package rules

import (
	"sort"

	"golang.org/x/tools/go/ssa"

	"muxlint/internal/an"
)

// Ctx is what a rule sees.
type Ctx struct {
	P *an.Prog
	A *Anchors
	R *an.Report
	O *an.Originator
}

func NewCtx(p *an.Prog, a *Anchors, r *an.Report) *Ctx {
	return &Ctx{P: p, A: a, R: r, O: an.NewOriginator(p)}
}

// Spec describes the check of one property.
type Spec struct {
	ID          string
	Explanation string
	Assumptions []string
	Run         func(c *Ctx)
}

var registry = map[string]*Spec{}

func register(s *Spec) { registry[s.ID] = s }

func Lookup(id string) *Spec { return registry[id] }

func Properties() []string {
	var out []string
	for k := range registry {
		out = append(out, k)
	}
	sort.Strings(out)
	return out
}

var commonAssumptions = []string{
	"patterns reach the tree only through Tree.Add; requests only through Tree.Handler",
	"user-supplied functions (handlers of type T, CallFunc, Matcher, InterceptorFunc, RecoverFunc, BuildNodeHandler, Middleware) are boundary calls and are not analysed",
	"go/types and go/ssa represent the source faithfully (cross-checked with a second front end in the thorough tier)",
}

// helpers shared by rule files -------------------------------------------------

func (c *Ctx) pos(in ssa.Instruction) string { return c.P.InstrPos(in) }

func (c *Ctx) fk(f *ssa.Function) string { return an.FuncKey(f) }

// libFuncs: library functions with bodies.
func (c *Ctx) libFuncs() []*ssa.Function {
	var out []*ssa.Function
	for _, f := range c.P.Funcs {
		if an.IsLibrary(f) && len(f.Blocks) > 0 {
			out = append(out, f)
		}
	}
	return out
}
