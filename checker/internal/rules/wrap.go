package rules

import (
	"go/types"

	"golang.org/x/tools/go/ssa"

	"muxlint/internal/an"
)

// resolveWrap: v is ApplyMiddleware(h, method, pattern, router, ms...) — directly, or through wrapper
// functions / closures whose single result is such a call with their own parameters and captured variables as
// arguments.  Returns the five argument terms in the context of v's function.
func (c *Ctx) resolveWrap(v ssa.Value, depth int) ([]*an.Term, bool) {
	call, ok := v.(*ssa.Call)
	if !ok || depth > 3 {
		return nil, false
	}
	g := an.StaticCallee(&call.Call)
	if g == nil {
		return nil, false
	}
	var args []*an.Term
	for _, a := range an.CallArgs(&call.Call) {
		args = append(args, c.O.Of(a))
	}
	if g == an.Origin(c.P.MustFunc("tree.ApplyMiddleware")) {
		return args, len(args) == 5
	}
	if !an.InModule(g) {
		return nil, false
	}
	rets := an.Returns(g)
	if len(rets) != 1 || len(rets[0].Results) != 1 {
		return nil, false
	}
	inner, ok := c.resolveWrap(rets[0].Results[0], depth+1)
	if !ok {
		return nil, false
	}
	// substitute the wrapper's parameters and captured variables
	free := map[string]*an.Term{}
	if mc := closureValue(call.Call.Value); mc != nil {
		fn := mc.Fn.(*ssa.Function)
		for i, b := range mc.Bindings {
			if i < len(fn.FreeVars) {
				free["free:"+fn.FreeVars[i].Name()] = c.cellTerm(b)
			}
		}
	}
	out := make([]*an.Term, len(inner))
	for i, t := range inner {
		t = an.Substitute(t, g, args)
		out[i] = an.SubstituteFree(t, free)
	}
	return out, true
}

func closureValue(v ssa.Value) *ssa.MakeClosure {
	mc, _ := v.(*ssa.MakeClosure)
	return mc
}

// cellTerm: the term of the value a captured cell holds (its single store), or of the binding itself.
func (c *Ctx) cellTerm(b ssa.Value) *an.Term {
	if al, ok := b.(*ssa.Alloc); ok {
		var stores []*ssa.Store
		for _, r := range *al.Referrers() {
			if st, ok := r.(*ssa.Store); ok && st.Addr == ssa.Value(al) {
				stores = append(stores, st)
			}
		}
		if len(stores) == 1 {
			return c.O.Of(stores[0].Val)
		}
	}
	return c.O.Of(b)
}

// isBuilderCall: a call of a value of type types.BuildNodeHandler[T].
func isBuilderCall(v ssa.Value) (*ssa.Call, bool) {
	call, ok := v.(*ssa.Call)
	if !ok || call.Call.IsInvoke() {
		return nil, false
	}
	n, ok := types.Unalias(call.Call.Value.Type()).(*types.Named)
	if !ok || n.Obj().Name() != "BuildNodeHandler" {
		return nil, false
	}
	return call, true
}
