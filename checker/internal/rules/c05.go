package rules

import (
	"go/types"
	"strconv"
	"strings"

	"golang.org/x/tools/go/ssa"

	"muxlint/internal/an"
)

func init() {
	register(&Spec{
		ID: "C05",
		Explanation: "Decides four structural conditions without which a crashing input exists: R1 no nil handler can be selected (every node with handlers has the 405 and OPTIONS entries: a installs, b reserved keys not deletable by name, c automatic entries deleted only together when nothing else is left); R2 first-byte index coherence (= C03.R1/R2, the children[indexes[b]] access); R3 no explicit panic is reachable from serving/parsing entry points, registration panics carry an error value; R4 guard pairing for data-derived indexing on the serving path; R5 CheckSyntax, URL and registration share one parser; R6 the CORS procedure (which dereferences the matched node) runs only on the served edge, where the node is non-nil. " +
			"R7 (= C01.R4) the handler Tree.Handler reports as found comes from a comma-ok lookup on a node that has handlers (never a nil handler handed to the call function); R8 (= C07.R3 d, e) a pooled context is released once and not touched afterwards (two requests sharing one context die with concurrent map writes). " +
			"R17 an index that is compared with a length is compared with the length of the collection it indexes. " +
			"R18 no store into a Context's parameter map is reachable with the map nil; R5 also: CheckSyntax and Tree.Add succeed only behind the parser. " +
			"R19 (= C10.R17) a name that is only the ignore flag is refused. " +
			"R20 (= C02.R21) the split point of two segment texts, for all pairs of texts. " +
			"Not decided: absence of runtime faults for arbitrary bytes in general (no bounds prover in reach; the compiler's prove pass leaves about 100 bounds checks unproven).",
		Assumptions: commonAssumptions,
		Run: func(c *Ctx) {
			ruleAutoEntries(c, "R1a")
			ruleReservedKeysNotDeletable(c, "R1b", []string{"", "OPTIONS"}, "the 405 and OPTIONS entries cannot be deleted by name: a node with handlers always has a handler for unregistered methods")
			ruleAutoEntriesDeletedTogether(c, "R1c")
			ruleIndexRebuilt(c, "R2a")
			ruleIndexRebuildComplete(c, "R2b")
			rulePanics(c, "R3")
			ruleGuardedIndexing(c, "R4")
			ruleOneParser(c, "R5")
			ruleCorsOnlyServed(c, "R6")
			ruleHandlerLookup(c, "R7")
			rulePoolReleaseOnce(c, "R8")
			ruleNarrowingGuarded(c, "R9")
			ruleGlobals(c, "R10")
			ruleIndexResetOnEveryPath(c, "R2c")
			rulePatternsEnterThroughTheParser(c, "R11")
			ruleOnlyTheWholePatternIsJudged(c, "R13")
			ruleSegmentsAreBuiltFromParsedPieces(c, "R14")
			ruleAdjacencyIsDecidedOnTheText(c, "R15")
			ruleRegexpSplitOnRuneBoundary(c, "R16")
			ruleIndexedFieldsKeepValidatedText(c, "R12")
			ruleIndexBoundedByItsOwnLength(c, "R17")
			ruleZeroContextIsUsable(c, "R18")
			ruleStrippedNameIsNotEmpty(c, "R19")
			ruleSplitPointAutomaton(c, "R20")
		},
	})
}

func (c *Ctx) mustFuncs(keys ...string) []*ssa.Function {
	var out []*ssa.Function
	for _, k := range keys {
		out = append(out, c.P.MustFunc(k))
	}
	return out
}

var servingEntries = []string{
	"mux.(*Router).ServeHTTP", "mux.(*Group).ServeHTTP", "mux.(*Hosts).Match", "mux.(*pathVersion).Match",
	"mux.(*headerVersion).Match", "mux.CheckSyntax", "mux.URL", "mux.(*Router).URL",
}

// rulePanics is C05.R3.
func rulePanics(c *Ctx, rule string) {
	a := c.A
	c.R.Rule(c.R.Property+"."+rule+"a", len(servingEntries), "no explicit panic is reachable from serving, matching, CheckSyntax or URL")
	c.R.Rule(c.R.Property+"."+rule+"b", 2, "Handle / Hosts.Add panic with an error value, never with a runtime fault or a string")
	g := an.NewGraph(c.P)
	panicsOf := func(f *ssa.Function) []*ssa.Panic {
		var out []*ssa.Panic
		an.AllInstrs(f, func(in ssa.Instruction) {
			if p, ok := in.(*ssa.Panic); ok && !isRangeFuncPanic(in) {
				// (the panics of a "rangefunc.*" block are the compiler's own checks of the range-over-func protocol)
				if deadNilAssertion(p) {
					return // `if p == nil { panic }` on a pointer parameter that no caller can pass nil
				}
				out = append(out, p)
			}
		})
		return out
	}
	for _, e := range c.mustFuncs(servingEntries...) {
		reach := g.Reach([]*ssa.Function{e}, nil)
		var bad []string
		for _, f := range an.SortedFuncs(reach) {
			for _, p := range panicsOf(f) {
				bad = append(bad, c.pos(p)+" via "+an.Chain(reach, f))
			}
		}
		c.R.Add(rule+"a", c.fk(e), "no-panic-reachable", c.P.Pos(e.Pos()), len(bad) == 0, ifelse(len(bad) == 0, "no panic instruction in the "+itoa(len(reach))+" reachable module functions", "explicit panic reachable from a serving/parse entry point: "+strings.Join(bad, "; ")))
	}
	errT := types.Universe.Lookup("error").Type().Underlying().(*types.Interface)
	for _, e := range c.mustFuncs("mux.(*Router).Handle", "mux.(*Hosts).Add") {
		reach := g.Reach([]*ssa.Function{e}, nil)
		for _, f := range an.SortedFuncs(reach) {
			for _, p := range panicsOf(f) {
				v := p.X
				for {
					if mi, ok := v.(*ssa.MakeInterface); ok {
						v = mi.X
						continue
					}
					if ci, ok := v.(*ssa.ChangeInterface); ok {
						v = ci.X
						continue
					}
					break
				}
				isErr := types.Implements(v.Type(), errT)
				construct := "panic-arg:" + shortTypeOf(v.Type()) + "/from:" + an.FuncKey(e)
				if !isErr && an.FuncKey(f) == "tree.splitNode" {
					// named exemption: the assertion n.parent == nil; its unreachability is itself checked
					ok, why := parentAlwaysSet(c)
					c.R.Add(rule+"b", c.fk(f), construct+"/exempt:parent-assert", c.pos(p), ok, ifelse(ok, "assertion on the parent link; unreachable: "+why, "the parent-link assertion may fire: "+why))
					continue
				}
				c.R.Add(rule+"b", c.fk(f), construct, c.pos(p), isErr, ifelse(isErr, "panics with an error value", "registration can panic with a non-error value of type "+shortTypeOf(v.Type())))
			}
		}
	}
	_ = a
}

func shortTypeOf(t types.Type) string {
	return types.TypeString(t, func(p *types.Package) string { return p.Name() })
}

func itoa(n int) string { return strconv.Itoa(n) }

// parentAlwaysSet: every node allocated outside the tree constructor gets a
// parent link, and no store writes nil to a parent link.
func parentAlwaysSet(c *Ctx) (bool, string) {
	a := c.A
	ok := true
	why := ""
	allocs := 0
	for _, f := range c.libFuncs() {
		an.AllInstrs(f, func(in ssa.Instruction) {
			if al, isAl := in.(*ssa.Alloc); isAl {
				elem := al.Type().Underlying().(*types.Pointer).Elem()
				if isNamed(elem, a.NodeT) && f != a.TreeNew {
					allocs++
					sets := false
					for _, r := range *al.Referrers() {
						if fa, isFA := r.(*ssa.FieldAddr); isFA && an.FieldName(fa.X.Type(), fa.Field) == a.FParent {
							for _, rr := range *fa.Referrers() {
								if st, isSt := rr.(*ssa.Store); isSt && !an.IsNilConst(st.Val) {
									sets = true
								}
							}
						}
					}
					if !sets {
						ok = false
						why = "node allocated at " + c.pos(in) + " without a parent link"
					}
				}
			}
			if _, field, val, isSt := fieldStore(in, a.NodeT); isSt && field == a.FParent && an.IsNilConst(val) {
				ok = false
				why = "nil stored to a parent link at " + c.pos(in)
			}
		})
	}
	if ok {
		why = itoa(allocs) + " node allocation(s) outside the constructor, each with a non-nil parent link; no nil store to a parent link"
	}
	return ok, why
}

// ruleOneParser is C05.R5.
func ruleOneParser(c *Ctx, rule string) {
	c.R.Rule(c.R.Property+"."+rule, 4, "Handle agrees with CheckSyntax whenever no interceptor rules are involved: all of them parse with the same splitter and segment constructor")
	g := an.NewGraph(c.P)
	split := c.P.MustFunc("syntax.(*Interceptors).Split")
	newSeg := c.P.MustFunc("syntax.(*Interceptors).NewSegment")
	static := func(_ *ssa.Function, e an.Edge) bool { return e.Kind == "static" || e.Kind == "closure" }
	for _, k := range []string{"mux.CheckSyntax", "mux.URL", "tree.(*Tree).Add", "syntax.(*Interceptors).URL"} {
		f := c.P.MustFunc(k)
		reach := g.Reach([]*ssa.Function{f}, static)
		_, ok := reach[split]
		c.R.Add(rule, k, "parses-with:"+an.FuncKey(split), c.P.Pos(f.Pos()), ok, ifelse(ok, an.Chain(reach, split), "does not parse through "+an.FuncKey(split)+": a second parser can disagree with CheckSyntax"))
		// … on every path: no success return in front of the parser (a shortcut for "plain" patterns skips what
		// the parser checks for every pattern — the length limit of a segment — and then disagrees with Handle)
		if ok && an.ErrorResultIndex(f) >= 0 && (k == "mux.CheckSyntax" || k == "tree.(*Tree).Add") { // URL returns the pattern as it is when there are no parameters to substitute
			callsParser := func(in ssa.Instruction) bool {
				call := an.CallOf(in)
				if call == nil {
					return false
				}
				gg := an.StaticCallee(call)
				if gg == nil {
					return false
				}
				if an.Origin(gg) == an.Origin(split) {
					return true
				}
				_, below := g.Reach([]*ssa.Function{gg}, static)[split]
				return below
			}
			path := (&an.Query{
				Block:  callsParser,
				Target: func(in ssa.Instruction) bool { r, isRet := in.(*ssa.Return); return isRet && an.IsSuccessReturn(r) },
			}).Search(an.Entry(f))
			o := c.R.Add(rule, k, "success-only-behind:"+an.FuncKey(split), c.P.Pos(f.Pos()), path == nil, ifelse(path == nil, "every success return is behind the parser", "a success return is reachable without parsing the pattern: what the parser refuses for every pattern (an over-long segment) is accepted on this path, and the function disagrees with the others"))
			if path != nil {
				o.Path = c.P.PathString(path)
			}
		}
	}
	reach := g.Reach([]*ssa.Function{split}, static)
	_, ok := reach[newSeg]
	c.R.Add(rule, c.fk(split), "segments-by:"+an.FuncKey(newSeg), c.P.Pos(split.Pos()), ok, ifelse(ok, "Split builds segments with NewSegment", "Split no longer builds segments with NewSegment"))
	// every caller of the segment constructor inside the tree package is below Split or splits an existing segment
	add := c.A.TreeAdd
	r2 := g.Reach([]*ssa.Function{add}, static)
	_, ok1 := r2[newSeg]
	c.R.Add(rule, c.fk(add), "registers-through:"+an.FuncKey(newSeg), c.P.Pos(add.Pos()), ok1, ifelse(ok1, an.Chain(r2, newSeg), "registration no longer builds its segments with NewSegment"))
}

// deadNilAssertion: the panic is behind the edge `p == nil` of a pointer parameter p whose argument is, at every
// call site in the module, a value that cannot be nil (a fresh allocation, the result of a single-value type
// assertion, or the result of a module function that only returns such values).
func deadNilAssertion(p *ssa.Panic) bool {
	f := p.Parent()
	if f == nil || f.Parent() != nil {
		return false
	}
	var guarded *ssa.Parameter
	dom := an.DominatedByEdge(p, func(b *ssa.BasicBlock, succ int) bool {
		cond, onTrue := an.EdgeCond(b, succ)
		if cond == nil {
			return false
		}
		x, k, eq, ok := an.CondAtom(cond)
		if !ok || k.Value != nil || eq != onTrue {
			return false
		}
		par, isPar := x.(*ssa.Parameter)
		if !isPar {
			return false
		}
		if _, isPtr := par.Type().Underlying().(*types.Pointer); !isPtr {
			return false
		}
		guarded = par
		return true
	})
	if !dom || guarded == nil {
		return false
	}
	args := argsOfParam(guarded)
	if len(args) == 0 {
		return false
	}
	for _, a := range args {
		if !knownNonNil(a, 0) {
			return false
		}
	}
	return true
}

func knownNonNil(v ssa.Value, depth int) bool {
	if depth > 3 {
		return false
	}
	switch x := v.(type) {
	case *ssa.Alloc, *ssa.MakeClosure, *ssa.Function, *ssa.Global, *ssa.MakeMap, *ssa.MakeSlice:
		return true
	case *ssa.TypeAssert:
		return !x.CommaOk
	case *ssa.Phi:
		for _, e := range x.Edges {
			if !knownNonNil(e, depth+1) {
				return false
			}
		}
		return len(x.Edges) > 0
	case *ssa.Parameter:
		args := argsOfParam(x)
		if len(args) == 0 {
			return false
		}
		for _, a := range args {
			if !knownNonNil(a, depth+1) {
				return false
			}
		}
		return true
	case *ssa.Call:
		g := an.StaticCallee(&x.Call)
		if g == nil || !an.InModule(g) || len(g.Blocks) == 0 {
			return false
		}
		rets := an.Returns(g)
		for _, r := range rets {
			if len(r.Results) != 1 || !knownNonNil(r.Results[0], depth+1) {
				return false
			}
		}
		return len(rets) > 0
	}
	return false
}
