package rules

import (
	"fmt"
	"go/token"
	"go/types"
	"strings"

	"golang.org/x/tools/go/ssa"

	"muxlint/internal/an"
)

// Rules written from the third round of seeded changes (small edits: a near-identical function, the raw value
// instead of the normalised one, a dropped reset, a swapped argument). Each is a structural necessary condition of
// the property it runs under.

// ruleInterceptorShorthands: WithAnyInterceptor / WithDigitInterceptor / WithWordInterceptor register the matcher of
// that name (every value dispatched or accepted by strict URL building satisfies the parameter's constraint).
func ruleInterceptorShorthands(c *Ctx, rule string) {
	c.R.Rule(c.R.Property+"."+rule, 3, "the bundled interceptor options register the matcher they are named after")
	for _, n := range []string{"Any", "Digit", "Word"} {
		f := c.P.Func("mux.With" + n + "Interceptor")
		if f == nil {
			continue
		}
		got := ""
		fam := ctorFamily(c.P.Func("mux.WithInterceptor"))
		an.AllInstrs(f, func(in ssa.Instruction) {
			if call := an.CallOf(in); call != nil && an.StaticCallee(call) != nil && fam[an.StaticCallee(call)] && len(call.Args) > 0 {
				v := call.Args[0]
				if ct, ok := v.(*ssa.ChangeType); ok {
					v = ct.X
				}
				if fn, ok := v.(*ssa.Function); ok {
					got = an.FuncKey(fn)
				} else {
					got = c.O.Of(v).String()
				}
			}
		})
		want := "syntax.Match" + n
		good := got == want
		c.R.Add(rule, c.fk(f), "registers:"+want, c.P.Pos(f.Pos()), good, ifelse(good, "WithInterceptor("+want+", rule)", "With"+n+"Interceptor registers "+got+" instead of "+want+": a {name:rule} parameter accepts values its documented constraint rejects (or the reverse)"))
	}
}

// ruleDigitPredicates: "digit" means the ASCII range '0'..'9' — in the digit interceptor and in the port validator
// the bytes are compared with '0' and '9', not classified by unicode.
func ruleDigitPredicates(c *Ctx, rule string, keys ...string) {
	c.R.Rule(c.R.Property+"."+rule, 0, "digits are the ASCII digits: the range test against '0' and '9'")
	for _, k := range keys {
		f := c.P.Func(k)
		if f == nil {
			continue
		}
		lo, hi, uni := false, false, ""
		isK := func(v ssa.Value, n int64) bool {
			kc, ok := v.(*ssa.Const)
			return ok && kc.Value != nil && kc.Value.Kind() != 0 && kc.Value.ExactString() == fmt.Sprint(n)
		}
		// the function itself, the predicates and closures it uses
		fns := append([]*ssa.Function{f}, f.AnonFuncs...)
		for _, g := range builderCluster(c, f) {
			if g != f {
				fns = append(fns, g)
				fns = append(fns, g.AnonFuncs...)
			}
		}
		an.AllInstrs(f, func(in ssa.Instruction) {
			// function values handed to library helpers (strings.ContainsFunc(port, notDigit))
			for _, op := range in.Operands(nil) {
				if *op == nil {
					continue
				}
				if fn, ok := (*op).(*ssa.Function); ok && an.InModule(fn) {
					fns = append(fns, fn)
				}
			}
		})
		for _, g := range fns {
			an.AllInstrs(g, func(in ssa.Instruction) {
				if bo, ok := in.(*ssa.BinOp); ok {
					switch bo.Op {
					case token.LSS, token.GTR, token.LEQ, token.GEQ:
						if isK(bo.X, 48) || isK(bo.Y, 48) {
							lo = true
						}
						if isK(bo.X, 57) || isK(bo.Y, 57) {
							hi = true
						}
					}
				}
				if call := an.CallOf(in); call != nil && strings.HasPrefix(an.CalleeName(call), "unicode.") {
					uni = an.CalleeName(call)
				}
			})
		}
		good := lo && hi && uni == ""
		c.R.Add(rule, k, "digits:ascii-range", c.P.Pos(f.Pos()), good, ifelse(good, "bytes are tested against '0' and '9'", ifelse(uni != "", "digits are classified with "+uni+": non-ASCII decimal digits (Arabic-Indic, full-width) now count as digits", "the '0'..'9' range test is incomplete")))
	}
}

// ruleRequestPathIsMatched: the path the tree matches is the request's URL.Path (decoded), not a re-encoded or
// otherwise derived form: captured values and literal comparisons are about the path as received.
func ruleRequestPathIsMatched(c *Ctx, rule string) {
	c.R.Rule(c.R.Property+"."+rule, 1, "the path that is matched is the request path")
	f := c.P.MustFunc("mux.(*Router).serveContext")
	n := 0
	for _, fn := range builderCluster(c, f) {
		if !strings.HasPrefix(an.FuncKey(fn), "mux.") {
			continue
		}
		an.AllInstrs(fn, func(in ssa.Instruction) {
			base, field, val, ok := fieldStoreAny(in)
			if !ok || field != "Path" || !strings.HasPrefix(base, "p:") {
				return
			}
			if _, isCtx := fieldLoadOf(in.(*ssa.Store).Addr, c.A.ContextT, "Path"); !isCtx {
				if fa, ok := in.(*ssa.Store).Addr.(*ssa.FieldAddr); !ok || !isPtrToNamed(fa.X.Type(), c.A.ContextT) {
					return
				}
			}
			n++
			t := c.O.Of(val).String()
			good := strings.HasSuffix(t, ".URL.Path") && !strings.Contains(t, "call<")
			c.R.Add(rule, c.fk(fn), "store:ctx.Path=req.URL.Path", c.pos(in), good, ifelse(good, "the matcher works on "+t, "the path handed to the matcher is "+t+", not the request's URL.Path: escaped bytes no longer compare equal to literal text and captured values come back encoded"))
		})
	}
	if n == 0 {
		c.R.Add(rule, c.fk(f), "store:ctx.Path=req.URL.Path", c.P.Pos(f.Pos()), false, "serveContext no longer hands the request path to the matcher")
	}
}

// ruleIndexGuardExact: the first-byte index is consulted for every non-empty remaining path: the guard on the path
// length is `> 0` (a stronger bound skips the literal children when one byte is left).
func ruleIndexGuardExact(c *Ctx, rule string) {
	a := c.A
	c.R.Rule(c.R.Property+"."+rule, 0, "literal children are tried first for every non-empty remaining path")
	for _, s := range attemptSites(c) {
		if !nodeViaIndex(c, s.child) {
			continue
		}
		f := s.f
		// the comparisons on len(ctx.Path) that dominate the index attempt
		bad := ""
		seen := false
		an.AllInstrs(f, func(in ssa.Instruction) {
			bo, ok := in.(*ssa.BinOp)
			if !ok {
				return
			}
			lc, ok := bo.X.(*ssa.Call)
			if !ok {
				return
			}
			call, isLen := builtinCall(lc, "len")
			if !isLen {
				return
			}
			if _, isPath := isCtxPathField(c, call.Args[0]); !isPath {
				return
			}
			k, ok := bo.Y.(*ssa.Const)
			if !ok || k.Value == nil {
				return
			}
			// does this comparison guard the attempt?
			dom := (&an.Query{Target: func(t ssa.Instruction) bool { return t == ssa.Instruction(s.in) }, BlockEdge: func(b *ssa.BasicBlock, succ int) bool {
				cond, _ := an.EdgeCond(b, succ)
				v, _ := stripNot(cond)
				return v == ssa.Value(bo)
			}}).Search(an.Entry(f)) == nil
			if !dom {
				return
			}
			seen = true
			n := k.Int64()
			okForm := (bo.Op == token.GTR && n == 0) || (bo.Op == token.NEQ && n == 0) || (bo.Op == token.GEQ && n == 1) || (bo.Op == token.EQL && n == 0) || (bo.Op == token.LSS && n == 1) || (bo.Op == token.LEQ && n == 0)
			if !okForm {
				bad = fmt.Sprintf("len(path) %s %d", bo.Op, n)
			}
		})
		_ = a
		if !seen {
			continue
		}
		c.R.Add(rule, c.fk(f), "index-attempt/path-length-guard", c.pos(s.in), bad == "", ifelse(bad == "", "the index is consulted whenever the remaining path is not empty", "the index attempt is guarded by "+bad+": with exactly one byte of path left no literal child is tried, and the request falls through to a parameter route or 404"))
	}
}

// ruleNarrowingGuarded: a length converted to int16 is bounded by a guard against a constant that fits (the segment
// length limit): otherwise the ambiguity arithmetic wraps negative and a slice bound faults.
func ruleNarrowingGuarded(c *Ctx, rule string) {
	c.R.Rule(c.R.Property+"."+rule, 1, "lengths narrowed to int16 are bounded by the segment length limit")
	newSeg := c.P.MustFunc("syntax.(*Interceptors).NewSegment")
	narrow := 0
	for _, f := range c.libFuncs() {
		if !strings.HasPrefix(an.FuncKey(f), "syntax.") {
			continue
		}
		an.AllInstrs(f, func(in ssa.Instruction) {
			cv, ok := in.(*ssa.Convert)
			if !ok {
				return
			}
			if b, ok := cv.Type().Underlying().(*types.Basic); !ok || b.Kind() != types.Int16 {
				return
			}
			if lc, ok := cv.X.(*ssa.Call); ok {
				if _, isLen := builtinCall(lc, "len"); isLen {
					narrow++
				}
			}
		})
	}
	if narrow == 0 {
		c.R.Add(rule, c.fk(newSeg), "int16(len)/bounded", c.P.Pos(newSeg.Pos()), true, "no length is narrowed to int16")
		return
	}
	// the constructor rejects values longer than a constant <= MaxInt16 before building anything
	bound := int64(-1)
	var at ssa.Instruction
	an.AllInstrs(newSeg, func(in ssa.Instruction) {
		bo, ok := in.(*ssa.BinOp)
		if !ok || (bo.Op != token.GTR && bo.Op != token.GEQ) {
			return
		}
		lc, ok := bo.X.(*ssa.Call)
		if !ok {
			return
		}
		if _, isLen := builtinCall(lc, "len"); !isLen {
			return
		}
		if k, ok := bo.Y.(*ssa.Const); ok && k.Value != nil && k.Int64() > 255 {
			bound, at = k.Int64(), in
		}
	})
	good := bound >= 0 && bound <= 32767
	pos := c.P.Pos(newSeg.Pos())
	if at != nil {
		pos = c.pos(at)
	}
	c.R.Add(rule, c.fk(newSeg), "int16(len)/bounded", pos, good, ifelse(good, fmt.Sprintf("segments longer than %d are rejected; %d conversions to int16", bound, narrow), ifelse(bound < 0, "segment lengths are narrowed to int16 without a length limit", fmt.Sprintf("the segment length limit is %d, above the int16 range the lengths are narrowed to: the ambiguity length wraps negative and Handle dies with a slice-bounds fault instead of an error value", bound))))
}

// ruleLockOptionReachesTree: the lock the user asked for is the lock the tree gets: the `lock` argument of tree.New
// derives from the option / parameter of that name in every constructor.
func ruleLockOptionReachesTree(c *Ctx, rule string) {
	c.R.Rule(c.R.Property+"."+rule, 2, "WithLock(true) / NewHosts(true, …) build a tree that has its lock")
	treeNew := c.A.TreeNew
	lockIdx := -1
	for i, p := range treeNew.Params {
		if b, ok := p.Type().Underlying().(*types.Basic); ok && b.Kind() == types.Bool && lockIdx < 0 {
			lockIdx = i
		}
	}
	if lockIdx < 0 {
		an.Fatalf("UNRESOLVED anchor: lock parameter of %s", c.fk(treeNew))
	}
	for _, f := range c.libFuncs() {
		if !strings.HasPrefix(an.FuncKey(f), "mux.") {
			continue
		}
		an.AllInstrs(f, func(in ssa.Instruction) {
			call, ok := calleeIs(in, treeNew)
			if !ok || lockIdx >= len(call.Args) {
				return
			}
			t := c.O.Of(call.Args[lockIdx]).String()
			good := strings.HasSuffix(t, ".lock") || t == "param:lock" || strings.HasSuffix(t, ":lock") || strings.HasPrefix(t, "field<lock>(")
			c.R.Add(rule, c.fk(f), "tree.New/lock=configured", c.pos(in), good, ifelse(good, "the tree's lock argument is "+t, "the tree is built with lock = "+t+" instead of the configured value: a router or Hosts matcher created with locking runs unlocked (data races under concurrent registration and serving)"))
		})
	}
}

// ruleRecoveryWriterIsCurrent: the writer handed to the recovery function is the writer variable as it is when the
// panic is recovered (a captured variable or a pointer to it), not a copy bound when the defer statement ran: for
// HEAD requests the variable is replaced by the body-discarding wrapper afterwards.
func ruleRecoveryWriterIsCurrent(c *Ctx, rule string) {
	c.R.Rule(c.R.Property+"."+rule, 1, "the recovery function writes through the writer in force when the panic happened (the HEAD wrapper included)")
	for _, cl := range recoverClosures(c) {
		an.AllInstrs(cl, func(in ssa.Instruction) {
			call, ok := in.(*ssa.Call)
			if !ok || !strings.HasPrefix(an.CalleeName(&call.Call), "dynamic:") || len(call.Call.Args) != 2 {
				return
			}
			if !isResponseWriter(call.Call.Args[0].Type()) {
				return
			}
			w := call.Call.Args[0]
			byValue := false
			if par, isPar := w.(*ssa.Parameter); isPar && cl.Parent() != nil {
				_ = par
				byValue = true // a closure parameter: evaluated when the defer statement ran
			}
			c.R.Add(rule, c.fk(cl), "recovery-writer/current", c.pos(in), !byValue, ifelse(!byValue, "the writer is read when the panic is recovered", "the recovering closure receives the writer as an argument of the defer statement: it was evaluated before the HEAD wrapper replaced it, so on HEAD the recovery function's body reaches the client"))
		})
	}
}

// ruleHeaderShortcut: headerIsAllowed may say yes without looking at the requested names only when every header is
// allowed (the any-header flag) or nothing was requested.
func ruleHeaderShortcut(c *Ctx, rule string) {
	_, isAllowed, _ := corsFuncs(c)
	c.R.Rule(c.R.Property+"."+rule, 1, "the requested-header test is skipped only for '*' or an empty request")
	for _, r := range an.Returns(isAllowed) {
		k, ok := an.ReturnValue(r, 0).(*ssa.Const)
		if !ok || k.Value == nil || k.Value.ExactString() != "true" {
			continue
		}
		// after the loop over the requested items, or behind anyHeaders / empty header
		afterLoop := false
		for _, l := range rangeLoops(isAllowed) {
			if l.hdr.Block().Succs[1].Dominates(r.Block()) {
				afterLoop = true
			}
		}
		// the same for a loop that is not a range loop (`for more := true; more; { v, h, more = strings.Cut(h, ",") … }`):
		// behind the exit edge of a loop header
		for _, hb := range isAllowed.Blocks {
			if len(hb.Instrs) == 0 || len(hb.Succs) != 2 {
				continue
			}
			isHeader := false
			for _, pred := range hb.Preds {
				if hb.Dominates(pred) {
					isHeader = true
				}
			}
			if !isHeader {
				continue
			}
			for _, ex := range hb.Succs {
				if !blockReaches(ex, hb) && ex.Dominates(r.Block()) {
					afterLoop = true
				}
			}
		}
		if afterLoop {
			continue
		}
		why := ""
		dom := an.DominatedByEdge(r, func(b *ssa.BasicBlock, succ int) bool {
			return edgeHas(b, succ, func(cond ssa.Value, truth bool) bool {
				if ap := an.AP(cond); ap == "recv.anyHeaders" {
					return truth
				}
				x, kc, eq, ok := an.CondAtom(cond)
				if ok {
					if s, isS := strConst(kc); isS && s == "" && eq == truth {
						_ = x
						return true
					}
					if lc, isCall := x.(*ssa.Call); isCall {
						if _, isLen := builtinCall(lc, "len"); isLen && an.ConstKey(kc) == "0" && eq == truth {
							return true
						}
					}
				}
				return false
			})
		})
		if !dom {
			why = "an early `return true` of the requested-header test is not behind the any-header flag or an empty request: a router configured for any origin but specific headers grants preflights for foreign headers"
		}
		c.R.Add(rule, c.fk(isAllowed), "shortcut-true/behind:anyHeaders-or-empty", c.pos(r), dom, ifelse(dom, "only '*' or an empty request skips the per-name test", why))
	}
}

// ruleRouterNameSetFirst: Tree.Handler names the router in the context on every path (TRACE short-cut included).
func ruleRouterNameSetFirst(c *Ctx, rule string) {
	c.R.Rule(c.R.Property+"."+rule, 1, "the route handed to the call function names the router that serves it, on every path")
	f := c.A.TreeHandler
	setName := c.P.MustFunc("types.(*Context).SetRouterName")
	path := (&an.Query{
		Target: func(t ssa.Instruction) bool { _, ok := t.(*ssa.Return); return ok && t.Parent() == f },
		Block:  func(t ssa.Instruction) bool { _, ok := calleeIs(t, setName); return ok },
		Deep:   1,
	}).Search(an.Entry(f))
	o := c.R.Add(rule, c.fk(f), "sets-router-name/on-every-path", c.P.Pos(f.Pos()), path == nil, ifelse(path == nil, "every return of Tree.Handler is preceded by SetRouterName", "Tree.Handler can return (for instance through the TRACE short-cut) before the router name is set: behind a Hosts matcher the route is named after the matcher's tree"))
	if path != nil {
		o.Path = c.P.PathString(path)
	}
}

// ruleIndexResetOnEveryPath: the index builder leaves no stale index: every return is preceded by a reset of the
// index field (nil / fresh map) or a clear of the map — also on the "too few children" path.
func ruleIndexResetOnEveryPath(c *Ctx, rule string) {
	a := c.A
	f := a.IndexBuilder
	c.R.Rule(c.R.Property+"."+rule, 1, "the index builder never leaves an old index in place")
	if f == nil {
		c.R.Add(rule, "pkg:tree", "index-builder/exists", "-", false, "no function rebuilds the first-byte index of a node (the index field could not be identified): literal children cannot be found through an index that is kept current")
		return
	}
	reset := func(in ssa.Instruction) bool {
		if base, field, _, ok := fieldStore(in, a.NodeT); ok && field == a.FIndexes && base == "recv" {
			return true
		}
		if call, ok := builtinCall(in, "clear"); ok {
			if base, isIdx := fieldLoadOf(call.Args[0], a.NodeT, a.FIndexes); isIdx && base == "recv" {
				return true
			}
		}
		return false
	}
	path := (&an.Query{Target: func(t ssa.Instruction) bool { _, ok := t.(*ssa.Return); return ok }, Block: reset}).Search(an.Entry(f))
	o := c.R.Add(rule, c.fk(f), "index-reset/on-every-path", c.P.Pos(f.Pos()), path == nil, ifelse(path == nil, "every path resets the index before returning", "the index builder can return without resetting the index (for instance when the node has too few children for an index): a node that shrinks below the threshold keeps its old index, and literal requests are sent to stale positions"))
	if path != nil {
		o.Path = c.P.PathString(path)
	}
}

// rulePortCutAtLastColon: the port is what follows the LAST colon of the host (an IPv6 literal contains colons).
func rulePortCutAtLastColon(c *Ctx, rule string) {
	c.R.Rule(c.R.Property+"."+rule, 0, "the port is what follows the last colon of the host")
	f := c.P.MustFunc("mux.(*Hosts).Match")
	n := 0
	for _, fn := range builderCluster(c, f) {
		if !strings.HasPrefix(an.FuncKey(fn), "mux.") {
			continue
		}
		an.AllInstrs(fn, func(in ssa.Instruction) {
			call := an.CallOf(in)
			if call == nil || len(call.Args) != 2 {
				return
			}
			name := an.CalleeName(call)
			if name != "strings.IndexByte" && name != "strings.LastIndexByte" && name != "strings.Index" && name != "strings.LastIndex" && name != "strings.IndexRune" {
				return
			}
			k, ok := call.Args[1].(*ssa.Const)
			if !ok || k.Value == nil {
				return
			}
			s := k.Value.ExactString()
			if s != "58" && s != `":"` {
				return
			}
			n++
			good := strings.Contains(name, "Last")
			c.R.Add(rule, c.fk(fn), "port-separator/last-colon", c.pos(in), good, ifelse(good, "the port separator is the last ':'", "the port is looked for behind the first ':' ("+name+"): a bracketed IPv6 host with a port ([::1]:8080) is no longer stripped and stops matching"))
		})
	}
	_ = n
}

// ruleAppendDoesNotAlias: append onto a slice field (or a parameter) whose result is handed on instead of being stored
// back builds the new list in the spare capacity of a slice other holders still use (options of a Group, middleware
// lists): the next append overwrites it.
func ruleAppendDoesNotAlias(c *Ctx, rule string, keys ...string) {
	c.R.Rule(c.R.Property+"."+rule, 0, "lists derived from a shared slice are copies (slices.Concat / Clone), not appends into its spare capacity")
	for _, k := range keys {
		f := c.P.Func(k)
		if f == nil {
			continue
		}
		an.AllInstrs(f, func(in ssa.Instruction) {
			call, ok := builtinCall(in, "append")
			if !ok || len(call.Args) < 2 {
				return
			}
			base := call.Args[0]
			bap := an.AP(base)
			if !(strings.HasPrefix(bap, "recv.") || strings.HasPrefix(bap, "p:")) {
				return
			}
			// stored back into the same place?
			storedBack := false
			if v, isVal := in.(ssa.Value); isVal {
				for _, r := range *v.Referrers() {
					if st, ok := r.(*ssa.Store); ok && an.AP(st.Addr) == bap {
						storedBack = true
					}
				}
			}
			// two holders are needed for harm: the base stays where it is, and the derived list is kept as well (stored,
			// captured, returned, or handed to a module function that keeps it) — or the base is the caller's own memory.
			// A derived list that is consumed during the call (NewRouter(…, o...)) shares nothing afterwards.
			kept := strings.HasPrefix(bap, "p:")
			if v, isVal := in.(ssa.Value); isVal && !kept {
				var flows func(x ssa.Value, depth int) bool
				flows = func(x ssa.Value, depth int) bool {
					if depth > 3 {
						return false
					}
					for _, r := range *x.Referrers() {
						switch y := r.(type) {
						case *ssa.Store:
							if y.Val == x {
								if _, isFA := y.Addr.(*ssa.FieldAddr); isFA {
									return true
								}
								if _, isG := y.Addr.(*ssa.Global); isG {
									return true
								}
								if cell, isCell := y.Addr.(*ssa.Alloc); isCell {
									// a local variable: follow its loads
									for _, cr := range *cell.Referrers() {
										if ld, isLd := cr.(*ssa.UnOp); isLd && flows(ld, depth+1) {
											return true
										}
										if _, isMC := cr.(*ssa.MakeClosure); isMC {
											return true
										}
									}
								}
							}
						case *ssa.MakeClosure:
							return true
						case *ssa.Return:
							return true
						case *ssa.Phi:
							if flows(y, depth+1) {
								return true
							}
						case *ssa.Slice:
							if flows(y, depth+1) {
								return true
							}
						case *ssa.Call:
							g := an.StaticCallee(&y.Call)
							if g == nil {
								return true // a dynamic callee may keep it
							}
							if !an.InModule(g) || len(g.Blocks) == 0 {
								continue
							}
							for i, arg := range an.CallArgs(&y.Call) {
								if arg == x && i < len(g.Params) && sliceKeeps(c, an.Origin(g), an.Origin(g).Params[i], 0) != "" {
									return true
								}
							}
						}
					}
					return false
				}
				kept = flows(v, 0)
			}
			good := storedBack || !kept
			c.R.Add(rule, k, "append:"+bap+"/stored-back-or-copied", c.pos(in), good, ifelse(good, ifelse(storedBack, "the list is extended in place and kept by its owner", "the derived list is consumed during the call: nothing keeps it next to its base"), "append("+bap+", …) builds a derived list on top of a slice that stays shared, and the derived list is kept: with spare capacity the next derivation overwrites the elements of this one (routers created later get another router's options)"))
		})
	}
}

// ruleTraceHeaderSet: the Trace helper owns the Content-Type of its reply: it is written with Set (a value preset by
// a middleware is replaced, not accompanied), and the body is written with the http.ResponseWriter's Write.
func ruleTraceHeaderOwned(c *Ctx, rule string) {
	f := c.P.MustFunc("trace.Trace")
	c.R.Rule(c.R.Property+"."+rule, 2, "the Trace helper replies with exactly Content-Type message/http and writes the escaped dump itself")
	sawCT, sawWrite := false, false
	for _, fn := range builderCluster(c, f) {
		if fn.Pkg != f.Pkg {
			continue
		}
		an.AllInstrs(fn, func(in ssa.Instruction) {
			call := an.CallOf(in)
			if call == nil {
				return
			}
			name := an.CalleeName(call)
			if strings.HasPrefix(name, "net/http.Header.") && len(call.Args) >= 2 {
				if s, _ := strConst(call.Args[1]); s == "Content-Type" {
					sawCT = true
					good := name == "net/http.Header.Set"
					c.R.Add(rule, c.fk(fn), "content-type/written-with-Set", c.pos(in), good, ifelse(good, "Content-Type is set", "Content-Type is written with "+strings.TrimPrefix(name, "net/http.")+": a value preset by a Use middleware stays, and the reply carries two Content-Type values instead of exactly message/http"))
				}
			}
			if call.IsInvoke() && call.Method.Name() == "Write" && isResponseWriter(call.Value.Type()) {
				sawWrite = true
			}
		})
	}
	if !sawCT {
		c.R.Add(rule, c.fk(f), "content-type/written-with-Set", c.P.Pos(f.Pos()), false, "the Trace helper no longer sets Content-Type")
	}
	c.R.Add(rule, c.fk(f), "body/written-by-the-helper", c.P.Pos(f.Pos()), sawWrite, ifelse(sawWrite, "the helper writes the body itself", "the Trace helper no longer writes html.EscapeString of the dump with the writer's Write (another escaper escapes differently — NUL bytes — and write errors are lost)"))
}

// ruleUnconditionalRecursion: a walk that recurses into the children with the same arguments it received (count,
// list, apply) does so for every child: a `continue` in front of the recursion skips the child's whole subtree.
func ruleUnconditionalRecursion(c *Ctx, rule string, roots []*ssa.Function, why string) {
	a := c.A
	c.R.Rule(c.R.Property+"."+rule, 0, why)
	g := an.NewGraph(c.P)
	reach := g.Reach(roots, func(_ *ssa.Function, e an.Edge) bool { return e.Kind == "static" })
	for _, f := range an.SortedFuncs(reach) {
		if !an.IsLibrary(f) || f.Signature.Results().Len() != 0 || len(f.Blocks) == 0 {
			continue
		}
		for _, l := range rangeLoops(f) {
			if _, isCh := fieldLoadOf(l.slice, a.NodeT, a.FChildren); !isCh {
				continue
			}
			// the recursive call on the element with the function's own remaining arguments
			var rec ssa.Instruction
			an.AllInstrs(f, func(in ssa.Instruction) {
				call, ok := in.(*ssa.Call)
				if !ok || an.StaticCallee(&call.Call) != f {
					return
				}
				args := an.CallArgs(&call.Call)
				same := len(args) == len(f.Params)
				for i := 1; same && i < len(args); i++ {
					if an.AP(args[i]) != an.AP(f.Params[i]) {
						same = false
					}
				}
				if same {
					rec = in
				}
			})
			if rec == nil {
				continue
			}
			for _, e := range l.elems {
				e := e
				path := (&an.Query{
					// the child list holds no nil (shape invariant): a nil test of the element skips nothing
					Assume: func(cond ssa.Value) (bool, bool) {
						x, k, eq, ok := an.CondAtom(cond)
						if ev, isV := e.(ssa.Value); ok && isV && k.Value == nil && x == ev {
							return !eq, true
						}
						return false, false
					},
					Block:      func(t ssa.Instruction) bool { return t == rec },
					TargetEdge: loopBackEdge(l),
					Target:     func(t ssa.Instruction) bool { _, ok := t.(*ssa.Return); return ok },
				}).Search(an.After(e))
				o := c.R.Add(rule, c.fk(f), "range("+an.AP(l.slice)+")/recurses-into-every-child", c.pos(e), path == nil, ifelse(path == nil, "every child is walked", "a child can be skipped without walking its subtree (a condition in front of the recursion): routes below a handler-less prefix node are not counted / listed / wrapped"))
				if path != nil {
					o.Path = c.P.PathString(path)
				}
			}
		}
	}
}

// ruleGroupOptionOrder: Group.New builds the router with the group's options followed by the call's own, so that an
// option given to New overrides the group-wide one (lock, URL domain, CORS, recovery, TRACE handler alike).
func ruleGroupOptionOrder(c *Ctx, rule string) {
	c.R.Rule(c.R.Property+"."+rule, 1, "a router created by Group.New is configured as NewRouter(group options…, own options…): its own options win")
	gn := c.P.MustFunc("mux.(*Group).New")
	newRouter := c.P.MustFunc("mux.NewRouter")
	found := false
	// which operand is it: the group's stored options, or the options given to New (directly or handed to a helper)
	role := func(t *an.Term) string {
		if ap, ok := t.APOf(); ok {
			if strings.HasSuffix(ap, ".options") {
				return "group"
			}
			if strings.HasPrefix(ap, "p:") {
				return "own"
			}
		}
		switch t.Op {
		case "param":
			return "own"
		case "const", "make":
			return "empty"
		}
		return "?" + t.String()
	}
	for _, fn := range builderCluster(c, gn) {
		if !strings.HasPrefix(an.FuncKey(fn), "mux.") {
			continue
		}
		an.AllInstrs(fn, func(in ssa.Instruction) {
			call, ok := calleeIs(in, newRouter)
			if !ok {
				return
			}
			found = true
			t := c.O.Of(call.Args[len(call.Args)-1])
			// every alternative of the list (a helper may return one side as it is when the other is empty) keeps
			// the order group-before-own, and some alternative has both
			alts := []*an.Term{t}
			if t.Op == "phi" {
				alts = t.Args
			}
			good, both := true, false
			for _, alt := range alts {
				last := ""
				hasG, hasO := false, false
				for _, op := range an.FlattenConcat(alt) {
					switch r := role(op); r {
					case "group":
						if last == "own" {
							good = false
						}
						hasG, last = true, r
					case "own":
						hasO, last = true, r
					case "empty":
					default:
						good = false
					}
				}
				if hasG && hasO {
					both = true
				}
			}
			good = good && both
			c.R.Add(rule, c.fk(gn), "call:mux.NewRouter/options=group++own", c.pos(in), good, ifelse(good, "the group's options come first, the options given to New after them", "Group.New passes "+t.String()+" as options: the group-wide options override the ones given to New (or are lost)"))
		})
	}
	if !found {
		c.R.Add(rule, c.fk(gn), "call:mux.NewRouter/options=group++own", c.P.Pos(gn.Pos()), false, "Group.New no longer builds the router with NewRouter")
	}
}

// ruleOptionClosuresStore: an option that carries one value stores it on every path ("the last one given wins",
// nil / zero included): a guard in front of the store makes a later WithX(zero) unable to undo an earlier WithX(v).
func ruleOptionClosuresStore(c *Ctx, rule string) {
	c.R.Rule(c.R.Property+"."+rule, 1, "the last option given wins: a single-value option stores its argument unconditionally")
	for _, p := range c.libFuncs() {
		if !strings.HasPrefix(an.FuncKey(p), "mux.With") || p.Parent() != nil {
			continue
		}
		an.AllInstrs(p, func(in ssa.Instruction) {
			mc, ok := in.(*ssa.MakeClosure)
			if !ok {
				return
			}
			fn, _ := mc.Fn.(*ssa.Function)
			if fn == nil || len(fn.Params) != 1 {
				return
			}
			// a closure whose only effect is a store of a captured parameter into a field of its argument
			var stores []ssa.Instruction
			other := false
			an.AllInstrs(fn, func(x ssa.Instruction) {
				switch y := x.(type) {
				case *ssa.Store:
					if fa, ok := y.Addr.(*ssa.FieldAddr); ok && strings.HasPrefix(an.AP(fa.X), "p:") {
						stores = append(stores, x)
					} else {
						other = true
					}
				case *ssa.Call, *ssa.MapUpdate:
					other = true
				}
			})
			if len(stores) != 1 || other {
				return
			}
			path := (&an.Query{Target: func(t ssa.Instruction) bool { _, ok := t.(*ssa.Return); return ok }, Block: func(t ssa.Instruction) bool { return t == stores[0] }}).Search(an.Entry(fn))
			c.R.Add(rule, c.fk(p), "option-closure/stores-on-every-path", c.pos(stores[0]), path == nil, ifelse(path == nil, "the option value is stored unconditionally", "the option stores its value only under a condition: a later "+strings.TrimPrefix(an.FuncKey(p), "mux.")+"(zero value) no longer overrides an earlier one (recovery cannot be switched off again: panics are swallowed instead of reaching the caller)"))
		})
	}
}

// ruleStoredListsAreCopies: a middleware list received as a parameter and kept in a Prefix / Resource / Router is
// copied first (slices.Clone / Concat / append onto an owned slice): the caller may reuse its slice.
func ruleStoredListsAreCopies(c *Ctx, rule string) {
	c.R.Rule(c.R.Property+"."+rule, 1, "middleware lists that are kept are copies of the caller's slice")
	for _, f := range c.libFuncs() {
		if !strings.HasPrefix(an.FuncKey(f), "mux.") {
			continue
		}
		an.AllInstrs(f, func(in ssa.Instruction) {
			st, ok := in.(*ssa.Store)
			if !ok {
				return
			}
			fa, ok := st.Addr.(*ssa.FieldAddr)
			if !ok || !isMiddlewareSlice(st.Val.Type()) {
				return
			}
			_ = fa
			par, isPar := st.Val.(*ssa.Parameter)
			if !isPar {
				return
			}
			c.R.Add(rule, c.fk(f), "keeps:"+an.AP(par)+"/copied", c.pos(in), false, "the caller's middleware slice is stored as it is: when the caller later rewrites or reuses that slice, routes registered afterwards run other middlewares")
		})
	}
	// positive instances: stores of cloned / concatenated lists
	n := 0
	for _, f := range c.libFuncs() {
		if !strings.HasPrefix(an.FuncKey(f), "mux.") {
			continue
		}
		an.AllInstrs(f, func(in ssa.Instruction) {
			st, ok := in.(*ssa.Store)
			if !ok || !isMiddlewareSlice(st.Val.Type()) {
				return
			}
			if _, ok := st.Addr.(*ssa.FieldAddr); !ok {
				return
			}
			if call, ok := st.Val.(*ssa.Call); ok {
				switch an.CalleeName(&call.Call) {
				case "slices.Clone", "slices.Concat", "builtin:append":
					n++
					c.R.Add(rule, c.fk(f), "keeps:"+shortCallee(an.CalleeName(&call.Call))+"/copied", c.pos(in), true, "the kept list is a fresh slice")
				}
			}
		})
	}
	_ = n
}

// blockReaches: to can be reached from from (from itself counts).
func blockReaches(from, to *ssa.BasicBlock) bool {
	seen := map[*ssa.BasicBlock]bool{}
	stack := []*ssa.BasicBlock{from}
	for len(stack) > 0 {
		b := stack[len(stack)-1]
		stack = stack[:len(stack)-1]
		if b == to {
			return true
		}
		if seen[b] {
			continue
		}
		seen[b] = true
		stack = append(stack, b.Succs...)
	}
	return false
}
