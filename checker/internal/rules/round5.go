package rules

import (
	"go/token"
	"go/types"
	"strings"

	"golang.org/x/tools/go/ssa"

	"muxlint/internal/an"
)

// round5.go — rules written for the defects the bug hunt found (D30 and later).

// holdsInterceptors: the struct type reaches (through at most three pointer-to-module-struct fields) a field of type
// *syntax.Interceptors: objects of it were configured with an interceptor table.
func holdsInterceptors(c *Ctx, t types.Type, depth int, seen map[*types.Named]bool) bool {
	if p, ok := t.(*types.Pointer); ok {
		t = p.Elem()
	}
	n, ok := types.Unalias(t).(*types.Named)
	if !ok || depth > 3 || seen[n.Origin()] {
		return false
	}
	seen[n.Origin()] = true
	st, ok := n.Underlying().(*types.Struct)
	if !ok || n.Obj().Pkg() == nil || !an.InModulePkg(n.Obj().Pkg()) {
		return false
	}
	tab := c.P.MustFunc("syntax.(*Interceptors).Split").Signature.Recv().Type()
	for i := 0; i < st.NumFields(); i++ {
		ft := st.Field(i).Type()
		if types.Identical(ft, tab) {
			return true
		}
		if holdsInterceptors(c, ft, depth+1, seen) {
			return true
		}
	}
	return false
}

// ruleConfiguredInterceptorsUsed — C10.R13 / C02.R13: a method of an object that was configured with an interceptor
// table (Router → Tree → interceptors) never parses a pattern with a package-level table. Patterns of live routes
// were accepted under the router's table: a rule text that is an interceptor's key there ("digit", "*") is a regular
// expression (or nonsense) for any other table, so building the URL of a route the router serves fails — or a
// different segment list is produced than the one the route was registered with.
func ruleConfiguredInterceptorsUsed(c *Ctx, rule string) {
	c.R.Rule(c.R.Property+"."+rule, 1, "objects configured with an interceptor table parse patterns with that table, never with a package-level one")
	var fromGlobal func(v ssa.Value, depth int) (string, bool)
	fromGlobal = func(v ssa.Value, depth int) (string, bool) {
		if depth > 4 {
			return "", false
		}
		switch x := v.(type) {
		case *ssa.UnOp:
			if x.Op == token.MUL {
				if g, ok := x.X.(*ssa.Global); ok {
					return g.Name(), true
				}
			}
		case *ssa.Phi:
			for _, e := range x.Edges {
				if n, ok := fromGlobal(e, depth+1); ok {
					return n, true
				}
			}
		case *ssa.Call:
			// a helper that hands out the package-level table
			g := an.StaticCallee(&x.Call)
			if g == nil || !an.InModule(g) || len(g.Blocks) == 0 {
				return "", false
			}
			for _, r := range an.Returns(g) {
				if len(r.Results) == 1 {
					if n, ok := fromGlobal(r.Results[0], depth+1); ok {
						return n, true
					}
				}
			}
		}
		return "", false
	}
	n := 0
	for _, f := range c.libFuncs() {
		recv := f.Signature.Recv()
		if recv == nil || !holdsInterceptors(c, recv.Type(), 0, map[*types.Named]bool{}) {
			continue
		}
		an.AllInstrs(f, func(in ssa.Instruction) {
			call := an.CallOf(in)
			if call == nil {
				return
			}
			g := an.StaticCallee(call)
			if g == nil || !strings.HasPrefix(an.FuncKey(g), "syntax.(*Interceptors).") || len(call.Args) == 0 {
				return
			}
			n++
			name, global := fromGlobal(call.Args[0], 0)
			c.R.Add(rule, c.fk(f), "call:"+an.FuncKey(g)+"/table-is-the-configured-one", c.pos(in), !global, ifelse(!global, "the table is "+an.AP(call.Args[0]), "a method of an object that holds its own interceptor table parses with the package-level table "+name+": a live route whose rule is one of the router's interceptors (\"{id:digit}\") is parsed as a regular expression, building its URL fails or yields other segments than the route has"))
		})
	}
	if n == 0 {
		c.R.Add(rule, "pkg:mux", "call:syntax.(*Interceptors).*/exists", "-", false, "no method of a configured object calls the pattern parser any more")
	}
}
