package rules

import (
	"fmt"
	"go/constant"
	"go/token"
	"go/types"
	"os"
	"sort"
	"strconv"
	"strings"

	"golang.org/x/tools/go/ssa"

	"muxlint/internal/an"
)

// round5.go — rules written for the defects the bug hunt found (D30 and later).

// holdsInterceptors: the struct type reaches (through at most three pointer-to-module-struct fields) a field of type
// *syntax.Interceptors: objects of it were configured with an interceptor table.
func holdsInterceptors(c *Ctx, t types.Type, depth int, seen map[*types.Named]bool) bool {
	if p, ok := t.(*types.Pointer); ok {
		t = p.Elem()
	}
	n, ok := types.Unalias(t).(*types.Named)
	if !ok || depth > 3 || seen[n.Origin()] {
		return false
	}
	seen[n.Origin()] = true
	st, ok := n.Underlying().(*types.Struct)
	if !ok || n.Obj().Pkg() == nil || !an.InModulePkg(n.Obj().Pkg()) {
		return false
	}
	tab := c.P.MustFunc("syntax.(*Interceptors).Split").Signature.Recv().Type()
	for i := 0; i < st.NumFields(); i++ {
		ft := st.Field(i).Type()
		if types.Identical(ft, tab) {
			return true
		}
		if holdsInterceptors(c, ft, depth+1, seen) {
			return true
		}
	}
	return false
}

// ruleConfiguredInterceptorsUsed — C10.R13 / C02.R13: a method of an object that was configured with an interceptor
// table (Router → Tree → interceptors) never parses a pattern with a package-level table. Patterns of live routes
// were accepted under the router's table: a rule text that is an interceptor's key there ("digit", "*") is a regular
// expression (or nonsense) for any other table, so building the URL of a route the router serves fails — or a
// different segment list is produced than the one the route was registered with.
func ruleConfiguredInterceptorsUsed(c *Ctx, rule string) {
	c.R.Rule(c.R.Property+"."+rule, 1, "objects configured with an interceptor table parse patterns with that table, never with a package-level one")
	var fromGlobal func(v ssa.Value, depth int) (string, bool)
	fromGlobal = func(v ssa.Value, depth int) (string, bool) {
		if depth > 4 {
			return "", false
		}
		switch x := v.(type) {
		case *ssa.UnOp:
			if x.Op == token.MUL {
				if g, ok := x.X.(*ssa.Global); ok {
					return g.Name(), true
				}
			}
		case *ssa.Phi:
			for _, e := range x.Edges {
				if n, ok := fromGlobal(e, depth+1); ok {
					return n, true
				}
			}
		case *ssa.Call:
			// a helper that hands out the package-level table
			g := an.StaticCallee(&x.Call)
			if g == nil || !an.InModule(g) || len(g.Blocks) == 0 {
				return "", false
			}
			for _, r := range an.Returns(g) {
				if len(r.Results) == 1 {
					if n, ok := fromGlobal(r.Results[0], depth+1); ok {
						return n, true
					}
				}
			}
		}
		return "", false
	}
	n := 0
	for _, f := range c.libFuncs() {
		recv := f.Signature.Recv()
		if recv == nil || !holdsInterceptors(c, recv.Type(), 0, map[*types.Named]bool{}) {
			continue
		}
		an.AllInstrs(f, func(in ssa.Instruction) {
			call := an.CallOf(in)
			if call == nil {
				return
			}
			g := an.StaticCallee(call)
			if g == nil || !strings.HasPrefix(an.FuncKey(g), "syntax.(*Interceptors).") || len(call.Args) == 0 {
				return
			}
			n++
			name, global := fromGlobal(call.Args[0], 0)
			c.R.Add(rule, c.fk(f), "call:"+an.FuncKey(g)+"/table-is-the-configured-one", c.pos(in), !global, ifelse(!global, "the table is "+an.AP(call.Args[0]), "a method of an object that holds its own interceptor table parses with the package-level table "+name+": a live route whose rule is one of the router's interceptors (\"{id:digit}\") is parsed as a regular expression, building its URL fails or yields other segments than the route has"))
		})
	}
	if n == 0 {
		c.R.Add(rule, "pkg:mux", "call:syntax.(*Interceptors).*/exists", "-", false, "no method of a configured object calls the pattern parser any more")
	}
}

// ruleEmptyListElementsIgnored — C12.R11: the requested-header test evaluated (symeval.go) for a request whose
// Access-Control-Request-Headers list has an element that is empty after trimming ("x-a," / ", x-a" / an empty
// line among several): such an element names no header (a recipient ignores empty list elements), so it is never
// the reason for a denial. Scenario: not every header is allowed, the joined header text is not empty, the generic
// element of the split list trims to "", and "" is not a configured header name. No outcome is `false`.
func ruleEmptyListElementsIgnored(c *Ctx, rule string) {
	c.R.Rule(c.R.Property+"."+rule, 1, "an empty element of the requested-header list is not a reason to deny the preflight")
	_, f, _ := corsFuncs(c)
	se := &symEval{c: c}
	emptyEl := func(e string) bool {
		// the element, trimmed or not: of a split list, or cut off the front of the text (strings.Cut)
		e = strings.TrimSuffix(strings.TrimPrefix(e, "CALL:strings.TrimSpace("), ")")
		return e == "EL" || (strings.HasPrefix(e, "CALL:strings.Cut(") && strings.HasSuffix(e, "#0"))
	}
	se.elem = func(slice string) string {
		if strings.HasPrefix(slice, "CALL:strings.Split(") || strings.HasPrefix(slice, "CALL:strings.SplitSeq(") {
			return "EL"
		}
		return "" // the configured list: its generic element
	}
	se.nonEmpty = func(coll string) bool { return strings.HasPrefix(coll, "CALL:strings.Split(") }
	se.truth = func(e string) int {
		b := func(v bool) int {
			if v {
				return 1
			}
			return -1
		}
		switch {
		case e == "RECV.anyHeaders":
			return -1
		case e == "EQ(RECV,NIL)" || e == "EQ(R,NIL)":
			return -1 // the router hands in its own configuration and the request
		case e == "NE(RECV,NIL)" || e == "NE(R,NIL)":
			return 1
		case strings.HasPrefix(e, "CALL:strings.EqualFold(") || strings.HasPrefix(e, "CONTAINS("):
			return -1 // "" is not a configured header
		}
		for _, op := range []string{"EQ", "NE"} {
			if !strings.HasPrefix(e, op+"(") {
				continue
			}
			in := e[len(op)+1 : len(e)-1]
			var x string
			switch {
			case strings.HasSuffix(in, `,CONST:""`):
				x = strings.TrimSuffix(in, `,CONST:""`)
			case strings.HasPrefix(in, `CONST:"",`):
				x = strings.TrimPrefix(in, `CONST:"",`)
			case strings.HasPrefix(in, "LEN(") && strings.HasSuffix(in, "),CONST:0"):
				x = in[4 : len(in)-9]
			default:
				continue
			}
			if emptyEl(x) {
				return b(op == "EQ")
			}
			return b(op == "NE") // the header text as a whole is not empty
		}
		return 0
	}
	se.model = func(se *symEval, name string, call *ssa.CallCommon, args []sval, st *sstate) ([]sval, bool) {
		switch name {
		case "slices.ContainsFunc", "slices.IndexFunc":
			if len(args) == 2 && args[1].e == "FUNC" {
				res := se.run(args[1].fn, []sval{sv("AH")}, args[1].free, st, 1)
				if len(res) >= 1 && len(res[0].ret) == 1 {
					if name == "slices.ContainsFunc" {
						return []sval{sv("CONTAINS(" + res[0].ret[0].e + ")")}, true
					}
				}
			}
		case "slices.Contains":
			return []sval{sv("CONTAINS(" + args[0].e + "," + args[1].e + ")")}, true
		}
		return nil, false
	}
	var bad []string
	outs := se.outcomes(f, []sval{sv("RECV"), sv("R")})
	for _, o := range outs {
		if os.Getenv("MUXLINT_DEBUG_R11") != "" {
			fmt.Fprintln(os.Stderr, "R11 outcome:", o.String())
		}
		// only a denial is a violation; a path the evaluator cannot follow (a hand-written scanning loop) decides nothing
		if o.ret == "CONST:false" {
			bad = append(bad, o.ret)
		}
	}
	ok := len(bad) == 0 && len(outs) > 0
	c.R.Add(rule, c.fk(f), "scenario:empty-list-element/not-denied", c.P.Pos(f.Pos()), ok, ifelse(ok, fmt.Sprintf("with an element that trims to \"\" every outcome is true (%d outcomes)", len(outs)), "a list element that is empty after trimming (\"x-a,\" or an empty line among several) is looked up in the allowed headers like a name, is not found, and the preflight is denied although every header it names is allowed: outcomes "+strings.Join(bad, " | ")))
}

// ruleNodeMethodSetReadOnce — C06.R10 / C12.R12: code that answers one request from a node's method set reads that set
// once. Methods() and AllowHeader() each take the tree lock for themselves; between two reads a Remove or Handle of
// another goroutine can change the set, and a response assembled from both (a preflight approved by the first read,
// answered with the list of the second) is one the router could give at no instant. Checked in every library
// function outside the tree package: no path leads from one read of a node's method set to another read on the same
// node.
func ruleNodeMethodSetReadOnce(c *Ctx, rule string) {
	c.R.Rule(c.R.Property+"."+rule, 1, "one decision about a node's method set is made from one read of it")
	isRead := func(in ssa.Instruction) (string, string, bool) {
		call := an.CallOf(in)
		if call == nil {
			return "", "", false
		}
		switch n := an.CalleeName(call); n {
		case "invoke:types.Node.Methods", "invoke:types.Node.AllowHeader":
			return an.AP(call.Value), strings.TrimPrefix(n, "invoke:types.Node."), true
		}
		return "", "", false
	}
	n := 0
	for _, f := range c.libFuncs() {
		if strings.HasPrefix(an.FuncKey(f), c.A.TreePkg.Name()+".") {
			continue
		}
		var reads []ssa.Instruction
		an.AllInstrs(f, func(in ssa.Instruction) {
			if _, _, ok := isRead(in); ok {
				reads = append(reads, in)
			}
		})
		for _, a := range reads {
			na, ma, _ := isRead(a)
			n++
			var second ssa.Instruction
			path := (&an.Query{
				Target: func(t ssa.Instruction) bool {
					nb, _, ok := isRead(t)
					if ok && nb == na {
						second = t
						return true
					}
					return false
				},
			}).Search(an.After(a))
			mb := ""
			if second != nil {
				_, mb, _ = isRead(second)
			}
			o := c.R.Add(rule, c.fk(f), "read:"+na+"."+ma+"/only-read-on-its-path", c.pos(a), path == nil, ifelse(path == nil, "no second read of the node's method set follows", "after "+ma+"() the same node's method set is read again ("+mb+"()) under a separate lock: a Remove or Handle in between makes the two reads disagree, and the response (a preflight approved for a method the returned list does not contain) matches no instant of the router"))
			if path != nil {
				o.Path = c.P.PathString(path)
			}
		}
	}
	if n == 0 {
		c.R.Add(rule, "pkg:mux", "read:node-method-set/exists", "-", false, "no library function outside the tree reads a node's method set any more (the CORS preflight test could not be found)")
	}
}

// rulePreflightNotAgainstRootUnion — C11.R12: Tree.Handler maps some request paths ("*" and the empty path of an
// absolute-form request target) to the root node, whose method set is the union of the methods of every route (it
// exists for the Allow header of `OPTIONS *`). That set says nothing about what the requested address serves, so the
// CORS procedure never tests a requested method against it: for every path constant Tree.Handler compares the
// request path with, no path through cors.handle under "the request path is that constant" reaches a read of the
// node's method set. (Otherwise a preflight for DELETE on the empty path is granted as soon as any route serves
// DELETE.)
func rulePreflightNotAgainstRootUnion(c *Ctx, rule string) {
	c.R.Rule(c.R.Property+"."+rule, 1, "a preflight is never approved against the root node's union of all methods")
	handle, _, _ := corsFuncs(c)
	var consts []string
	seen := map[string]bool{}
	an.AllInstrs(c.A.TreeHandler, func(in ssa.Instruction) {
		bo, ok := in.(*ssa.BinOp)
		if !ok || (bo.Op != token.EQL && bo.Op != token.NEQ) {
			return
		}
		for _, pair := range [][2]ssa.Value{{bo.X, bo.Y}, {bo.Y, bo.X}} {
			k, isS := strConst(pair[1])
			if isS && strings.HasSuffix(an.AP(pair[0]), ".Path") && !seen[k] {
				seen[k] = true
				consts = append(consts, k)
			}
		}
	})
	sort.Strings(consts)
	for _, k := range consts {
		k := k
		assume := func(cond ssa.Value) (bool, bool) {
			v, neg := stripNot(cond)
			bo, ok := v.(*ssa.BinOp)
			if !ok || (bo.Op != token.EQL && bo.Op != token.NEQ) {
				return false, false
			}
			for _, pair := range [][2]ssa.Value{{bo.X, bo.Y}, {bo.Y, bo.X}} {
				s, isS := strConst(pair[1])
				if isS && strings.HasSuffix(an.AP(pair[0]), ".URL.Path") {
					return ((s == k) == (bo.Op == token.EQL)) != neg, true
				}
			}
			return false, false
		}
		path := (&an.Query{
			Assume: assume,
			Facts:  true,
			Deep:   deepDefault,
			Target: func(t ssa.Instruction) bool {
				call := an.CallOf(t)
				if call == nil {
					return false
				}
				n := an.CalleeName(call)
				return n == "invoke:types.Node.Methods" || n == "invoke:types.Node.AllowHeader"
			},
		}).Search(an.Entry(handle))
		o := c.R.Add(rule, c.fk(handle), "path="+strconv.Quote(k)+"/method-set-of-the-root-not-consulted", c.P.Pos(handle.Pos()), path == nil, ifelse(path == nil, "for this path the CORS procedure does not consult the node's method set", "Tree.Handler answers the request path "+strconv.Quote(k)+" with the root node, whose method set is the union over all routes, and the CORS procedure tests the requested method against it: a preflight for a method that any route serves is granted on this path although the path itself serves only OPTIONS"))
		if path != nil {
			o.Path = c.P.PathString(path)
		}
	}
	if len(consts) == 0 {
		c.R.Add(rule, c.fk(c.A.TreeHandler), "root-mapped-paths/exist", c.P.Pos(c.A.TreeHandler.Pos()), true, "Tree.Handler maps no constant path to the root node")
	}
}

// ruleSuffixSearchResumesAtNextByte — C02.R14 / C01.R16: a named or interceptor parameter followed by literal text
// takes the shortest text its constraint accepts and after which that literal text occurs. When the constraint
// rejects the text before an occurrence of the literal, the next occurrence is searched from the byte after the
// *start* of the rejected one: literals that overlap themselves ("--" in "---", "11" in "111") have occurrences
// that begin inside the rejected one, and resuming after its end skips them (404, or a lower-priority route).
// Every re-search `strings.Index(text[low:], suffix)` in the syntax package has low = position + 1, and the position
// is advanced by the same amount.
func ruleSuffixSearchResumesAtNextByte(c *Ctx, rule string) {
	c.R.Rule(c.R.Property+"."+rule, 1, "after a rejected occurrence of a parameter's literal suffix the search resumes at the next byte")
	n := 0
	for _, f := range c.libFuncs() {
		if !strings.HasPrefix(an.FuncKey(f), "syntax.") {
			continue
		}
		an.AllInstrs(f, func(in ssa.Instruction) {
			call := an.CallOf(in)
			if call == nil || an.CalleeName(call) != "strings.Index" || !strings.HasSuffix(an.AP(call.Args[1]), ".Suffix") {
				return
			}
			sl, ok := call.Args[0].(*ssa.Slice)
			if !ok || sl.Low == nil {
				return
			}
			n++
			low := c.O.Of(sl.Low).String()
			bo, isAdd := sl.Low.(*ssa.BinOp)
			good := false
			if isAdd && bo.Op == token.ADD {
				for _, k := range []ssa.Value{bo.X, bo.Y} {
					if kc, isK := k.(*ssa.Const); isK && an.ConstKey(kc) == "1" {
						good = true
					}
				}
			}
			c.R.Add(rule, c.fk(f), "re-search:strings.Index(text[low:],Suffix)/low=position+1", c.pos(in), good, ifelse(good, "the search resumes one byte after the start of the rejected occurrence ("+low+")", "after the constraint rejected the text before an occurrence of the suffix, the search resumes at "+low+", behind the whole occurrence: an occurrence that overlaps the rejected one (\"--\" in \"---\") is never tried, the request is a 404 or goes to a route of lower priority"))
			// the position is advanced consistently: some addition to the position uses the result of this search plus 1
			adv := false
			if v, isVal := in.(ssa.Value); isVal {
				for _, ref := range *v.Referrers() {
					if b1, ok := ref.(*ssa.BinOp); ok && b1.Op == token.ADD {
						for _, r2 := range *b1.Referrers() {
							if b2, ok := r2.(*ssa.BinOp); ok && b2.Op == token.ADD {
								t := c.O.Of(b2).String()
								if strings.Contains(t, "1") && !strings.Contains(t, "len") {
									adv = true
								}
							}
						}
						t := c.O.Of(b1).String()
						if strings.Contains(t, ", 1)") || strings.Contains(t, "(1, ") {
							adv = true
						}
					}
				}
			}
			// the search gives up only when nothing was found: offset 0 (an occurrence starting at the very next byte) goes on
			if v, isVal := in.(ssa.Value); isVal && good {
				for _, ref := range *v.Referrers() {
					cmp, ok := ref.(*ssa.BinOp)
					if !ok {
						continue
					}
					at0, okA := cmpWithConst(cmp, v, 0)
					atM, okB := cmpWithConst(cmp, v, -1)
					if !okA || !okB {
						continue
					}
					isCond := false
					for _, r2 := range *cmp.Referrers() {
						if _, isIf := r2.(*ssa.If); isIf {
							isCond = true
						}
					}
					if !isCond {
						continue
					}
					c.R.Add(rule, c.fk(f), "re-search/gives-up-only-when-nothing-found", c.pos(cmp), at0 != atM, ifelse(at0 != atM, "offset 0 and not-found (-1) take different branches", "an occurrence found at offset 0 — starting on the byte right after the rejected one, \"--\" in \"---\" — takes the same branch as not-found: the overlapping occurrence the re-search exists for is never tried"))
				}
			}
			if good {
				c.R.Add(rule, c.fk(f), "re-search/position+=found+1", c.pos(in), adv, ifelse(adv, "the position moves to the occurrence found", "the position is not advanced by (offset found + 1): the capture and the remaining path are cut at the wrong place"))
			}
		})
	}
	if n == 0 {
		c.R.Add(rule, "pkg:syntax", "re-search/exists", "-", true, "no re-search loop over a parameter's suffix (one search decides)")
	}
}

// ruleRegexpSuffixComparedBytewise — C01.R17 / C02.R15: literal text matches byte for byte. A regexp parameter's
// literal suffix is compiled into its expression (QuoteMeta), and Go's regexp engine decodes every invalid UTF-8
// byte of the input as U+FFFD — which equals a U+FFFD rune in the pattern's suffix, so "/1/\xff" matched the route
// "/{id:\d+}/�". Wherever the syntax package consumes request path after a regexp search (a store to
// Context.Path after a Find* call on the segment's expression), the path goes through the true edge of a byte-wise
// comparison with the segment's Suffix (==, strings.HasPrefix, strings.HasSuffix).
func ruleRegexpSuffixComparedBytewise(c *Ctx, rule string) {
	c.R.Rule(c.R.Property+"."+rule, 1, "what a regexp search accepted as the literal suffix is compared with it byte for byte")
	suffixTrue := func(b *ssa.BasicBlock, succ int) bool {
		return edgeHas(b, succ, func(cond ssa.Value, truth bool) bool {
			switch x := cond.(type) {
			case *ssa.BinOp:
				if x.Op != token.EQL && x.Op != token.NEQ {
					return false
				}
				if strings.HasSuffix(an.AP(x.X), ".Suffix") || strings.HasSuffix(an.AP(x.Y), ".Suffix") {
					return (x.Op == token.EQL) == truth
				}
			case *ssa.Call:
				switch an.CalleeName(&x.Call) {
				case "strings.HasPrefix", "strings.HasSuffix":
					return strings.HasSuffix(an.AP(x.Call.Args[1]), ".Suffix") && truth
				}
			}
			return false
		})
	}
	n := 0
	for _, f := range c.libFuncs() {
		if !strings.HasPrefix(an.FuncKey(f), "syntax.") {
			continue
		}
		an.AllInstrs(f, func(in ssa.Instruction) {
			call := an.CallOf(in)
			if call == nil || !strings.HasPrefix(an.CalleeName(call), "regexp.(*Regexp).Find") || !strings.HasSuffix(an.AP(call.Args[0]), ".expr") {
				return
			}
			// the searched text is the request path
			if _, isPath := isCtxPathField(c, call.Args[1]); !isPath {
				return
			}
			n++
			path := (&an.Query{
				Target: func(t ssa.Instruction) bool {
					st, ok := t.(*ssa.Store)
					if !ok {
						return false
					}
					_, isPath := isCtxPathField(c, st.Addr)
					return isPath
				},
				BlockEdge: suffixTrue,
			}).Search(an.After(in))
			o := c.R.Add(rule, c.fk(f), "search:"+strings.TrimPrefix(an.CalleeName(call), "regexp.(*Regexp).")+"/suffix-compared-bytewise", c.pos(in), path == nil, ifelse(path == nil, "the path is consumed only after the text the expression took for the suffix was compared with it byte for byte", "the request path is consumed on the word of the regular expression alone: the engine reads every invalid UTF-8 byte as U+FFFD, so a request with a stray byte where the pattern's literal text has U+FFFD is handed to the route although its literal text differs"))
			if path != nil {
				o.Path = c.P.PathString(path)
			}
		})
	}
	if n == 0 {
		c.R.Add(rule, "pkg:syntax", "regexp-search-of-the-path/exists", "-", true, "the request path is not searched with a regular expression")
	}
}

// ruleExhaustedPathPrefersTheNode — C03.R9 / C02.R16: when the request path is used up at a node that has handlers,
// that node is the match: its pattern is the request path, literal text down to the last byte. Trying the children
// first hands the request to a child that accepts the empty rest — an end-point named parameter, `{x:\d*}` — with an
// empty value, and the node's own route (`/s/` beside `/s/{id}`) cannot be reached at all: the literal route loses to
// a parameter, and its methods are answered with the child's. In every scanning function no child is attempted on a
// path on which len(ctx.Path) == 0 and the node has handlers.
func ruleExhaustedPathPrefersTheNode(c *Ctx, rule string) {
	c.R.Rule(c.R.Property+"."+rule, 1, "a node with handlers is the match when the request path is used up: no child is tried before it")
	a := c.A
	n := 0
	done := map[*ssa.Function]bool{}
	isAttempt := map[ssa.Instruction]bool{}
	for _, s2 := range attemptSites(c) {
		isAttempt[s2.in] = true
	}
	// the functions the search recurses into (helpers that try one child on behalf of them are entered by the query)
	isBT := map[*ssa.Function]bool{}
	for _, f := range c.A.Backtrackers {
		isBT[an.Origin(f)] = true
	}
	entered := map[*ssa.Function]bool{} // called by itself, or from a function that is not part of the search
	for _, g := range c.libFuncs() {
		an.AllInstrs(g, func(in ssa.Instruction) {
			if call := an.CallOf(in); call != nil {
				if callee := an.StaticCallee(call); callee != nil && isBT[an.Origin(callee)] {
					if an.Origin(g) == an.Origin(callee) || !isBT[an.Origin(g)] {
						entered[an.Origin(callee)] = true
					}
				}
			}
		})
	}
	for _, f := range c.A.Backtrackers {
		if done[f] || len(f.Params) == 0 || !isPtrToNamed(f.Params[0].Type(), a.NodeT) || !entered[an.Origin(f)] {
			continue
		}
		done[f] = true
		assume := func(cond ssa.Value) (bool, bool) {
			v, neg := stripNot(cond)
			bo, ok := v.(*ssa.BinOp)
			if !ok {
				return false, false
			}
			kc, isK := bo.Y.(*ssa.Const)
			call, isCall := bo.X.(*ssa.Call)
			if !isK || !isCall || an.ConstKey(kc) != "0" {
				return false, false
			}
			x := int64(-1)
			if cc, isLen := builtinCall(call, "len"); isLen {
				if _, isPath := isCtxPathField(c, cc.Args[0]); isPath {
					x = 0 // the path is used up
				} else if ap := an.AP(cc.Args[0]); ap == "recv."+a.FHandlers {
					x = 1 // the node has handlers
				}
			} else if g := an.StaticCallee(&call.Call); g != nil && isSizeFunc(c, g) && an.AP(call.Call.Args[0]) == "recv" {
				x = 1
			}
			if x < 0 {
				return false, false
			}
			var val bool
			switch bo.Op {
			case token.EQL:
				val = x == 0
			case token.NEQ:
				val = x != 0
			case token.GTR:
				val = x > 0
			case token.GEQ:
				val = x >= 0
			case token.LSS:
				val = x < 0
			case token.LEQ:
				val = x <= 0
			default:
				return false, false
			}
			return val != neg, true
		}
		n++
		path := (&an.Query{
			Assume: assume,
			Facts:  true,
			Deep:   deepDefault,
			Target: func(t ssa.Instruction) bool { return isAttempt[t] },
		}).Search(an.Entry(f))
		o := c.R.Add(rule, c.fk(f), "path-used-up∧node-has-handlers/no-child-attempted", c.P.Pos(f.Pos()), path == nil, ifelse(path == nil, "with the path used up at a node with handlers the scan returns the node without trying a child", "with the request path used up at a node that has handlers, the children are still tried first: a child that accepts the empty rest (an end-point parameter) wins with an empty value, and the node's own route — the literal one, `/s/` beside `/s/{id}` — is unreachable; its methods are answered from the child"))
		if path != nil {
			o.Path = c.P.PathString(path)
		}
	}
	if n == 0 {
		c.R.Add(rule, "pkg:tree", "scanner/exists", "-", false, "no scanning function found")
	}
}

// ruleAmbiguitySkipIsTextLength — C17.R10: the ambiguity search skips, in the pattern being registered, the text of
// the parameter segment it has just compared — as many bytes as that segment's text has. The count is taken from
// the text itself (len(Value)), minus a part of the suffix at most; a length re-computed from the parts ("{}" + name
// + rule + ':' when there is a rule + suffix) misses the ':' of the documented form `{name:}`, the search resumes one
// byte early and `/x/{key:}/a` is accepted beside `/x/{id:}/a` (and unrelated patterns are rejected).
// Every value a syntax function returns into the slice bound `pattern[l:]` of the search is built from len(Value)
// and len(Suffix) of segments only.
func ruleAmbiguitySkipIsTextLength(c *Ctx, rule string) {
	c.R.Rule(c.R.Property+"."+rule, 1, "the ambiguity search skips exactly the text of the compared segment")
	search := c.P.Func("tree.(*node).checkAmbiguous")
	if search == nil {
		c.R.Add(rule, "pkg:tree", "ambiguity-search/exists", "-", true, "no separate ambiguity search (decided elsewhere)")
		return
	}
	n := 0
	an.AllInstrs(search, func(in ssa.Instruction) {
		sl, ok := in.(*ssa.Slice)
		if !ok || sl.Low == nil || !isStringType(sl.X.Type()) {
			return
		}
		call, isCall := sl.Low.(*ssa.Call)
		if !isCall {
			return
		}
		g := an.StaticCallee(&call.Call)
		if g == nil || !strings.HasPrefix(an.FuncKey(g), "syntax.") {
			return
		}
		for i, r := range an.Returns(g) {
			v := an.ReturnValue(r, 0)
			if k, isK := v.(*ssa.Const); isK && an.ConstKey(k) == "0" {
				continue
			}
			n++
			t := c.O.Of(v).String()
			good := strings.Contains(t, ".Value)") && !strings.Contains(t, "ambiguousLength") && !strings.Contains(t, ".Name") && !strings.Contains(t, ".rule")
			c.R.Add(rule, c.fk(g), fmt.Sprintf("return#%d/skip=len(text)", i), c.pos(r), good, ifelse(good, "the bytes skipped are "+t, "the number of pattern bytes the ambiguity search skips is "+t+", re-computed from the segment's parts instead of taken from its text: for `{name:}` (empty rule) the ':' is not counted, the search resumes one byte early — a pattern identical up to the name to the only other route is accepted, and an unrelated one is rejected as ambiguous"))
		}
	})
	if n == 0 {
		c.R.Add(rule, c.fk(search), "skip-length/from-the-syntax-package", c.P.Pos(search.Pos()), false, "the ambiguity search no longer takes the number of bytes to skip from the syntax package")
	}
}

// ruleOnlyTheWholePatternIsJudged — C05.R13: Handle and CheckSyntax agree on what a well-formed pattern is because
// both ask the parser about the whole pattern. A search that walks the tree hands the parser *remainders* of the
// pattern (the text after the nodes it has descended through); a remainder cut inside one of the pattern's own
// parameters (a literal node "{a" under the pattern "/{a{}") does not parse although the pattern does. The parser's
// verdict on a remainder is therefore never returned: in every function of the tree package that is called with a
// slice of its own string parameter (a recursive walk over remainders), the error of Interceptors.Split on that
// parameter does not reach a return.
func ruleOnlyTheWholePatternIsJudged(c *Ctx, rule string) {
	c.R.Rule(c.R.Property+"."+rule, 1, "the parser's verdict on a part of a pattern is never reported as the verdict on the pattern")
	split := c.P.MustFunc("syntax.(*Interceptors).Split")
	n := 0
	for _, f := range c.libFuncs() {
		if !strings.HasPrefix(an.FuncKey(f), c.A.TreePkg.Name()+".") {
			continue
		}
		// string parameters that receive a remainder (a slice of the same parameter) at a recursive call
		remainder := map[*ssa.Parameter]bool{}
		an.AllInstrs(f, func(in ssa.Instruction) {
			call := an.CallOf(in)
			if call == nil {
				return
			}
			if g := an.StaticCallee(call); g == nil || an.Origin(g) != an.Origin(f) {
				return
			}
			for i, a := range an.CallArgs(call) {
				if sl, ok := a.(*ssa.Slice); ok && i < len(f.Params) {
					if p, isP := sl.X.(*ssa.Parameter); isP && p == f.Params[i] {
						remainder[p] = true
					}
				}
			}
		})
		if len(remainder) == 0 {
			continue
		}
		an.AllInstrs(f, func(in ssa.Instruction) {
			call, ok := in.(*ssa.Call)
			if !ok {
				return
			}
			g := an.StaticCallee(&call.Call)
			if g == nil || an.Origin(g) != an.Origin(split) || len(call.Call.Args) != 2 {
				return
			}
			p, isP := call.Call.Args[1].(*ssa.Parameter)
			if !isP || !remainder[p] {
				return
			}
			n++
			returned := false
			var follow func(v ssa.Value, depth int)
			follow = func(v ssa.Value, depth int) {
				if depth > 4 || v.Referrers() == nil {
					return
				}
				for _, r := range *v.Referrers() {
					switch x := r.(type) {
					case *ssa.Return:
						returned = true
					case *ssa.Phi:
						follow(x, depth+1)
					case *ssa.MakeInterface:
						follow(x, depth+1)
					case *ssa.Store:
						returned = true // a named result or a variable read later
					}
				}
			}
			for _, r := range *call.Referrers() {
				if ex, isEx := r.(*ssa.Extract); isEx && ex.Index == 1 {
					follow(ex, 0)
				}
			}
			c.R.Add(rule, c.fk(f), "call:Interceptors.Split("+p.Name()+"=remainder)/error-not-returned", c.pos(in), !returned, ifelse(!returned, "a remainder that does not parse is skipped; the whole pattern is judged by Tree.Add", "the walk hands the parser the remainder of the pattern after the nodes it descended through and returns the parser's error: a literal node that ends inside one of the pattern's own parameters (\"{a\" under \"/{a{}\") leaves a remainder (\"{}\") that does not parse, and Handle rejects with a syntax error a pattern CheckSyntax accepts"))
		})
	}
	if n == 0 {
		c.R.Add(rule, "pkg:tree", "parser-on-remainders/exists", "-", true, "no walk over remainders consults the parser")
	}
}

// ruleAnswerFromOneSection — C06.R11: a response is one the router could have produced at one instant when everything
// it says about the matched node was read in the critical section that found the node. Tree.Handler finds node and
// handler under the read lock and releases it; what is read from the node afterwards (types.Node.Methods /
// AllowHeader take the lock again for themselves) belongs to a later instant — after a concurrent Remove the same
// request is answered 405 with an empty Allow, a combination no instant produces. The obligation: on no path of
// Router.serveContext is the node's method set read (by library code: the CORS procedure) after the lookup returned.
// The automatic 405 / OPTIONS handlers of the user's builders read it in the same way, out of reach of this rule.
func ruleAnswerFromOneSection(c *Ctx, rule string) {
	c.R.Rule(c.R.Property+"."+rule, 1, "what a response says about the matched node is read in the critical section that found it")
	serve := c.P.MustFunc("mux.(*Router).serveContext")
	n := 0
	an.AllInstrs(serve, func(in ssa.Instruction) {
		if _, ok := calleeIs(in, c.A.TreeHandler); !ok {
			return
		}
		n++
		path := (&an.Query{
			Deep: deepDefault,
			Target: func(t ssa.Instruction) bool {
				call := an.CallOf(t)
				if call == nil {
					return false
				}
				nm := an.CalleeName(call)
				return nm == "invoke:types.Node.Methods" || nm == "invoke:types.Node.AllowHeader"
			},
		}).Search(an.After(in))
		o := c.R.Add(rule, c.fk(serve), "after:Tree.Handler/node-method-set-not-read-again", c.pos(in), path == nil, ifelse(path == nil, "after the lookup nothing reads the node's method set under another acquisition", "after Tree.Handler released the tree lock the response is completed from a second read of the node's method set (types.Node.Methods / AllowHeader lock for themselves): a Remove or Handle between the lookup and that read yields a response no single instant produces (405 or a preflight answered with the method list of a later state, an empty Allow after Remove)"))
		if path != nil {
			o.Path = c.P.PathString(path)
		}
	})
	if n == 0 {
		c.R.Add(rule, c.fk(serve), "lookup/exists", c.P.Pos(serve.Pos()), false, "serveContext no longer looks the handler up with Tree.Handler")
	}
}

// ruleEntryConditionBelongsToTheGroup — C13.R12 / C07.R11: a Group serves with the first router whose matcher — the one
// given to *this group's* Add/New for that router — accepts. The pair (matcher, router) is state of the group. When
// the matcher is kept in the Router object (a field written by Group.Add), adding the same router to a second group
// overwrites the entry condition the first group dispatches with. Obligation: no function of Group writes a field of
// a Router that Group.ServeHTTP reads.
func ruleEntryConditionBelongsToTheGroup(c *Ctx, rule string) {
	c.R.Rule(c.R.Property+"."+rule, 1, "the entry condition of a router in a group is state of that group, not of the router")
	routerT := lookupNamed(c.A.MuxPkg, "Router")
	serve := c.P.MustFunc("mux.(*Group).ServeHTTP")
	reads := map[string]bool{}
	an.AllInstrs(serve, func(in ssa.Instruction) {
		if u, ok := in.(*ssa.UnOp); ok && u.Op == token.MUL {
			if fa, ok := u.X.(*ssa.FieldAddr); ok && isPtrToNamed(fa.X.Type(), routerT) {
				reads[an.FieldName(fa.X.Type(), fa.Field)] = true
			}
		}
	})
	n := 0
	seenStore := map[string]bool{}
	for _, f := range c.libFuncs() {
		if !strings.HasPrefix(an.FuncKey(f), "mux.(*Group).") {
			continue
		}
		an.AllInstrs(f, func(in ssa.Instruction) {
			st, ok := in.(*ssa.Store)
			if !ok {
				return
			}
			fa, ok := st.Addr.(*ssa.FieldAddr)
			if !ok || !isPtrToNamed(fa.X.Type(), routerT) {
				return
			}
			fld := an.FieldName(fa.X.Type(), fa.Field)
			if !reads[fld] {
				return
			}
			if _, fresh := fa.X.(*ssa.Alloc); fresh {
				return
			}
			if seenStore[c.fk(f)+"/"+fld] {
				return // one finding per function and field, however many stores
			}
			seenStore[c.fk(f)+"/"+fld] = true
			n++
			c.R.Add(rule, c.fk(f), "store:Router."+fld+"/read-by-Group.ServeHTTP", c.pos(in), false, "the group keeps what it dispatches with (Router."+fld+") inside the Router object: adding the same router to a second group (or adding it again with another matcher) rewrites the condition under which the first group enters it, although nothing was called on the first group")
		})
	}
	if n == 0 {
		c.R.Add(rule, "mux.(*Group)", "dispatch-state/kept-in-the-group", "-", true, "no Group method writes a Router field that Group.ServeHTTP reads")
	}
}

// ruleRootMappedPathsAreNotPatterns — C03.R15 / C04.R14: the request paths Tree.Handler answers with the root node
// ("*", and the empty path) never reach the route search, so a route registered under such a pattern is listed by
// Routes() and counted by OPTIONS * but can never be served. Tree.Add therefore refuses these patterns: somewhere
// on the way from Tree.Add to the node construction the pattern is compared with each of those constants.
func ruleRootMappedPathsAreNotPatterns(c *Ctx, rule string) {
	c.R.Rule(c.R.Property+"."+rule, 1, "a pattern that is a request path the tree answers with the root node is refused")
	var consts []string
	an.AllInstrs(c.A.TreeHandler, func(in ssa.Instruction) {
		bo, ok := in.(*ssa.BinOp)
		if !ok || bo.Op != token.EQL {
			return
		}
		if k, isS := strConst(bo.Y); isS && k != "" && strings.HasSuffix(an.AP(bo.X), ".Path") {
			consts = append(consts, k)
		}
	})
	sort.Strings(consts)
	reach := an.NewGraph(c.P).Reach([]*ssa.Function{c.A.TreeAdd}, func(_ *ssa.Function, e an.Edge) bool { return e.Kind == "static" })
	for _, k := range consts {
		found := false
		for f := range reach {
			an.AllInstrs(f, func(in ssa.Instruction) {
				if bo, ok := in.(*ssa.BinOp); ok && (bo.Op == token.EQL || bo.Op == token.NEQ) {
					for _, pair := range [][2]ssa.Value{{bo.X, bo.Y}, {bo.Y, bo.X}} {
						if s, isS := strConst(pair[1]); isS && s == k && isStringType(pair[0].Type()) {
							found = true
						}
					}
				}
			})
		}
		c.R.Add(rule, c.fk(c.A.TreeAdd), "pattern="+strconv.Quote(k)+"/refused", c.P.Pos(c.A.TreeAdd.Pos()), found, ifelse(found, "the pattern is compared with this constant on the way to registration", "Tree.Handler answers the request path "+strconv.Quote(k)+" with the root node without searching the routes, yet Tree.Add accepts "+strconv.Quote(k)+" as a pattern: the route is listed by Routes(), adds its methods to OPTIONS *, and is never served (its request is answered by the root's OPTIONS / 405)"))
	}
	if len(consts) == 0 {
		c.R.Add(rule, c.fk(c.A.TreeHandler), "root-mapped-paths/none", c.P.Pos(c.A.TreeHandler.Pos()), true, "no request path is answered with the root node without a search")
	}
}

// ruleSegmentsAreBuiltFromParsedPieces — C01.R18 / C05.R14: a segment object describes exactly one piece of a parsed
// pattern: literal text, or one parameter followed by its literal suffix. Segment.Match relies on it — for a
// parameter segment it never looks at text in front of the `{`. The segment constructor is handed pieces the
// splitter cut out of a pattern and parts of an existing segment's own text (Segment.Split); it is never handed text
// *assembled* from parts (two nodes' texts concatenated to merge them, Join, Sprintf): that can put literal text in
// front of a parameter, and the merged node matches every path, whatever its head says.
func ruleSegmentsAreBuiltFromParsedPieces(c *Ctx, rule string) {
	c.R.Rule(c.R.Property+"."+rule, 2, "the segment constructor only receives pieces cut by the splitter or parts of an existing segment's text")
	ctor := c.P.MustFunc("syntax.(*Interceptors).NewSegment")
	// assembled: the text is put together from parts (concatenation, Join, Sprintf, a builder) — through phis and
	// through the parameters of forwarding helpers
	var assembled func(v ssa.Value, depth int) bool
	assembled = func(v ssa.Value, depth int) bool {
		if depth > 3 {
			return false
		}
		switch x := v.(type) {
		case *ssa.BinOp:
			return x.Op == token.ADD
		case *ssa.Call:
			switch n := an.CalleeName(&x.Call); {
			case n == "strings.Join", strings.HasPrefix(n, "fmt.Sprint"), n == "strings.(*Builder).String", n == "strings.Repeat", n == "strings.Replace", n == "strings.ReplaceAll":
				return true
			}
		case *ssa.Phi:
			for _, e := range x.Edges {
				if assembled(e, depth+1) {
					return true
				}
			}
		case *ssa.Parameter:
			for _, a := range argsOfParam(x) {
				if assembled(a, depth+1) {
					return true
				}
			}
		}
		return false
	}
	okArg := func(v ssa.Value, _ int) bool { return !assembled(v, 0) }
	n := 0
	for _, f := range c.libFuncs() {
		an.AllInstrs(f, func(in ssa.Instruction) {
			call, ok := calleeIs(in, ctor)
			if !ok || len(call.Args) < 2 {
				return
			}
			n++
			good := okArg(call.Args[1], 0)
			if !good {
				// text without a '{' holds no parameter: whatever it was put together from, it is one literal piece
				txt := call.Args[1]
				if an.DominatedByEdge(in, noOpeningBraceEdge(c, func(v ssa.Value) bool { return v == txt || an.AP(v) == an.AP(txt) })) {
					good = true
				}
			}
			c.R.Add(rule, c.fk(f), "call:NewSegment/text="+c.O.Of(call.Args[1]).String(), c.pos(in), good, ifelse(good, "not assembled from parts", "a segment is built from "+c.O.Of(call.Args[1]).String()+", text assembled from parts instead of a piece the splitter cut out of a pattern or a part of one segment's text: literal text that ends up in front of a parameter is never compared with the request (the parameter's matcher starts at the `{`), so the node matches paths whose head differs"))
		})
	}
	_ = n
}

// ruleResponseHeadersAreNotWiped — C12.R13 / C11.R13: what the CORS procedure wrote stays on the response. The grant
// is written into the response header map before the handler runs; library code that empties that map afterwards
// (a recovery path that "starts from a clean writer") sends an allowed request's answer — the 500 of a panicking
// handler — without Access-Control-Allow-Origin and without Vary. No library function removes entries of an
// http.Header wholesale: no `clear(h)`, no `delete(h, k)` / `h.Del(k)` whose key is not a constant.
func ruleResponseHeadersAreNotWiped(c *Ctx, rule string) {
	c.R.Rule(c.R.Property+"."+rule, 0, "no library code empties a response header map")
	isHeader := func(t types.Type) bool {
		n, ok := types.Unalias(t).(*types.Named)
		return ok && n.Obj().Pkg() != nil && n.Obj().Pkg().Path() == "net/http" && n.Obj().Name() == "Header"
	}
	for _, f := range c.libFuncs() {
		an.AllInstrs(f, func(in ssa.Instruction) {
			call := an.CallOf(in)
			if call == nil {
				return
			}
			what := ""
			if b, isB := call.Value.(*ssa.Builtin); isB && len(call.Args) >= 1 {
				arg := call.Args[0]
				if ct, isCT := arg.(*ssa.ChangeType); isCT {
					arg = ct.X
				}
				switch {
				case b.Name() == "clear" && (isHeader(arg.Type()) || isHeader(call.Args[0].Type())):
					what = "clear(header map)"
				case b.Name() == "delete" && len(call.Args) == 2 && (isHeader(arg.Type()) || isHeader(call.Args[0].Type())):
					if _, isK := call.Args[1].(*ssa.Const); !isK {
						what = "delete(header map, " + c.O.Of(call.Args[1]).String() + ")"
					}
				}
			}
			if an.CalleeName(call) == "net/http.Header.Del" && len(call.Args) == 2 {
				if _, isK := call.Args[1].(*ssa.Const); !isK {
					what = "Header.Del(" + c.O.Of(call.Args[1]).String() + ")"
				}
			}
			if what == "" {
				return
			}
			c.R.Add(rule, c.fk(f), "wipes:"+what, c.pos(in), false, "library code removes response headers by a key it does not name ("+what+"): the CORS grant written before the handler ran (Access-Control-Allow-Origin, -Credentials, Expose-Headers, Vary) is removed with them — the answer of an allowed request leaves without it")
		})
	}
}

// ruleSummaryReadOnlyOfLiveNodes — C04.R15 / C03.R16: the method summary of a node is kept current only while the node
// has handlers: when Remove drops the whole handler map the summary is left as it was (the node is neither matched
// nor listed), and with a TRACE handler configured it is non-zero even for an emptied node. Code that walks the tree
// (a node method that calls itself on the children) therefore reads a node's summary only behind "this node has
// handlers"; a walk that trusts the summary of every node counts the methods of routes that were removed — OPTIONS *
// keeps naming a method no live route has.
func ruleSummaryReadOnlyOfLiveNodes(c *Ctx, rule string) {
	a := c.A
	c.R.Rule(c.R.Property+"."+rule, 0, "a walk over the tree reads a node's method summary only when the node has handlers")
	for _, f := range c.libFuncs() {
		if f.Signature.Recv() == nil || !isPtrToNamed(f.Signature.Recv().Type(), a.NodeT) || !strings.HasPrefix(an.FuncKey(f), a.TreePkg.Name()+".") {
			continue
		}
		walker := false
		an.AllInstrs(f, func(in ssa.Instruction) {
			if call := an.CallOf(in); call != nil {
				if g := an.StaticCallee(call); g != nil && an.Origin(g) == an.Origin(f) && len(call.Args) > 0 && strings.HasPrefix(an.AP(call.Args[0]), "recv."+a.FChildren) {
					walker = true
				}
			}
		})
		if !walker {
			continue
		}
		an.AllInstrs(f, func(in ssa.Instruction) {
			ld, ok := in.(*ssa.UnOp)
			if !ok || ld.Op != token.MUL {
				return
			}
			base, isSum := fieldLoadOf(ld, a.NodeT, a.FSummary)
			if !isSum || base != "recv" {
				return
			}
			dom := an.DominatedByEdge(in, func(b *ssa.BasicBlock, succ int) bool {
				return lenPositiveTermEdge(c, b, succ, "recv."+a.FHandlers)
			})
			c.R.Add(rule, c.fk(f), "walk/reads:"+a.FSummary+"/behind:has-handlers", c.pos(in), dom, ifelse(dom, "the summary is read for a node with handlers", "a walk over the tree reads the method summary of every node, also of nodes without handlers: the summary of an emptied node is stale (Remove does not rebuild it, and it carries the TRACE bit when TRACE is configured), so methods of removed routes are still counted — OPTIONS * and Routes() name what no live route serves"))
		})
	}
}

// ruleChainWalkEndsAtTheRoot — C10.R14: strict URL building writes the texts of the nodes from the root down to the
// node found. The chain is what the parent links say it is: the walk `curr = curr.parent` stops because it reached
// the root (a nil parent, or the root node itself) — not because a stored count ran out. A count kept in the nodes
// (a depth) is a second copy of the tree's shape that a split of an ancestor leaves stale below the split node: the
// built URL silently loses its head.
func ruleChainWalkEndsAtTheRoot(c *Ctx, rule string) {
	a := c.A
	c.R.Rule(c.R.Property+"."+rule, 0, "the walk from the node found up to the root ends when it reaches the root")
	f := a.TreeURL
	for _, g := range builderCluster(c, f) {
		if !strings.HasPrefix(an.FuncKey(g), a.TreePkg.Name()+".") {
			continue
		}
		an.AllInstrs(g, func(in ssa.Instruction) {
			phi, ok := in.(*ssa.Phi)
			if !ok || !isPtrToNamed(phi.Type(), a.NodeT) {
				return
			}
			// curr = φ(start, curr.parent)
			up := false
			for _, e := range phi.Edges {
				if ld, isLd := e.(*ssa.UnOp); isLd && ld.Op == token.MUL {
					if fa, isFA := ld.X.(*ssa.FieldAddr); isFA && fa.X == ssa.Value(phi) && an.FieldName(fa.X.Type(), fa.Field) == a.FParent {
						up = true
					}
				}
			}
			if !up {
				return
			}
			// the loop's exit test looks at the walker (curr, or curr.parent) — compared with nil or with the root
			hdr := phi.Block()
			var cond ssa.Value
			if len(hdr.Instrs) > 0 {
				if br, isIf := hdr.Instrs[len(hdr.Instrs)-1].(*ssa.If); isIf {
					cond = br.Cond
				}
			}
			good := false
			if cond != nil {
				var mentions func(v ssa.Value, depth int) bool
				mentions = func(v ssa.Value, depth int) bool {
					if depth > 4 {
						return false
					}
					if v == ssa.Value(phi) {
						return true
					}
					switch x := v.(type) {
					case *ssa.BinOp:
						return mentions(x.X, depth+1) || mentions(x.Y, depth+1)
					case *ssa.UnOp:
						return mentions(x.X, depth+1)
					case *ssa.FieldAddr:
						return mentions(x.X, depth+1)
					case *ssa.Phi:
						for _, e := range x.Edges {
							if e != v && mentions(e, depth+1) {
								return true
							}
						}
					}
					return false
				}
				good = mentions(cond, 0)
			}
			c.R.Add(rule, c.fk(g), "walk:"+a.FParent+"-chain/ends-at-the-root", c.pos(in), good, ifelse(good, "the walk up the parent links stops on a test of the node reached", "the walk up the parent links is bounded by something other than the node it has reached (a stored depth or count): that is a second copy of the tree's shape, stale for the nodes below a split — the built URL loses the text of the nodes the count does not cover, without an error"))
		})
	}
}

// ruleAdjacencyIsDecidedOnTheText — C10.R15 / C05.R15: "two parameters may not be adjacent": a piece that ends with a
// parameter followed by a piece that begins with '{'. The parser's flag that carries "the previous piece ended with a
// parameter" round its loop is: the segment built from the piece is a parameter (any kind — the end-point flag is
// recorded for named and interceptor parameters only, `{id:\d+}{page}` would slip through) and its suffix is empty
// (the last byte being '}' says nothing: '}' is legal literal text, /x}{id} has one parameter — D62).
func ruleAdjacencyIsDecidedOnTheText(c *Ctx, rule string) {
	c.R.Rule(c.R.Property+"."+rule, 0, "adjacent parameters are detected as: the previous segment is a parameter of any kind with an empty suffix")
	f := c.P.MustFunc("syntax.(*Interceptors).Split")
	for _, g := range builderCluster(c, f) {
		if !strings.HasPrefix(an.FuncKey(g), "syntax.") {
			continue
		}
		an.AllInstrs(g, func(in ssa.Instruction) {
			phi, ok := in.(*ssa.Phi)
			if !ok || !isBoolType(phi.Type()) || !strings.Contains(phi.Block().Comment, "loop") {
				return
			}
			// the flag is the one tested together with "this piece begins with '{'"
			tested := false
			for _, ref := range *phi.Referrers() {
				br, isIf := ref.(*ssa.If)
				if !isIf {
					continue
				}
				for _, succ := range br.Block().Succs {
					for _, x := range succ.Instrs {
						if bo, isBin := x.(*ssa.BinOp); isBin && bo.Op == token.EQL {
							if k, isK := bo.Y.(*ssa.Const); isK && an.ConstKey(k) == "123" {
								tested = true
							}
						}
					}
				}
			}
			if !tested {
				return
			}
			for _, e := range phi.Edges {
				if _, isK := e.(*ssa.Const); isK {
					continue
				}
				t := c.O.Of(e).String()
				// "the previous piece ends with a parameter" = it is a parameter segment (of any kind) with an empty
				// suffix: a comparison of the segment's Suffix with "" that is reached only behind a test of its Type
				// against the literal kind
				suffixEmpty, typed := false, false
				var walk func(v ssa.Value, depth int)
				walk = func(v ssa.Value, depth int) {
					if depth > 4 {
						return
					}
					switch x := v.(type) {
					case *ssa.Phi:
						for _, pe := range x.Edges {
							walk(pe, depth+1)
						}
					case *ssa.BinOp:
						for _, pair := range [][2]ssa.Value{{x.X, x.Y}, {x.Y, x.X}} {
							if sc, isC := strConst(pair[1]); isC && sc == "" && strings.HasSuffix(an.AP(pair[0]), ".Suffix") && (x.Op == token.EQL) {
								suffixEmpty = true
								segAP := strings.TrimSuffix(an.AP(pair[0]), ".Suffix")
								an.AllInstrs(g, func(y ssa.Instruction) {
									tb, isB := y.(*ssa.BinOp)
									if !isB || (tb.Op != token.NEQ && tb.Op != token.EQL) {
										return
									}
									if kk, isK := tb.Y.(*ssa.Const); isK && kk.Value != nil && an.AP(tb.X) == segAP+".Type" && kk.Value.ExactString() == c.A.Kind("String") && tb.Block().Dominates(x.Block()) {
										typed = true
									}
								})
							}
						}
						if x.Op == token.LAND || x.Op == token.AND {
							walk(x.X, depth+1)
							walk(x.Y, depth+1)
						}
					}
				}
				walk(e, 0)
				good := suffixEmpty && typed && !strings.Contains(t, ".Endpoint")
				why := "the flag that says the previous piece ended with a parameter is " + t + ": "
				switch {
				case strings.Contains(t, "125"):
					why += "the last byte of the piece compared with '}' — but '}' is legal literal text, so /x}{id} (one parameter behind a literal '}') is refused as two adjacent parameters by CheckSyntax, URL and Handle"
				case strings.Contains(t, ".Endpoint"):
					why += "the end-point flag is recorded for named and interceptor parameters only, so a regexp parameter directly followed by another parameter (`{id:\\d+}{page}`) is not reported as adjacent and the malformed pattern is accepted"
				default:
					why += "not \"a parameter segment of any kind with an empty suffix\""
				}
				c.R.Add(rule, c.fk(g), "loop-flag:previous-piece-ends-with-a-parameter", c.pos(in), good, ifelse(good, "the flag is: the segment is a parameter (its Type is tested against the literal kind) and its suffix is empty", why))
			}
		})
	}
}

// ruleCallersSlicesAreNotRetained — C07.R12 (census, also C13.R14, C12.R15, C11.R15): an exported constructor or
// method that receives a slice (a variadic list spread with `xs...` is the caller's slice) and builds a long-lived
// object from it — a matcher closure, a CORS configuration — does not keep that slice: a caller that reuses or edits
// its slice afterwards would change what a finished object does, and two objects built from one slice would be
// coupled. Kept means: stored into a struct field, or captured by a function literal, as it is (not cloned, not
// copied element by element) — directly or through one module helper the slice is handed to.
func ruleCallersSlicesAreNotRetained(c *Ctx, rule string, only string) {
	c.R.Rule(c.R.Property+"."+rule, 0, "objects built from a caller's slice keep a copy, not the slice")
	for _, f := range c.libFuncs() {
		k := an.FuncKey(f)
		if !strings.HasPrefix(k, "mux.") || f.Parent() != nil || f.Object() == nil || !f.Object().Exported() {
			continue
		}
		if only != "" {
			hit := false
			for _, alt := range strings.Split(only, "|") {
				if strings.Contains(k, alt) {
					hit = true
				}
			}
			if !hit {
				continue
			}
		}
		for _, p := range f.Params {
			if _, ok := p.Type().Underlying().(*types.Slice); !ok {
				continue
			}
			// lists of options and middlewares are judged like any other: their elements are immutable values, but a
			// list that is kept (NewGroup's options, read again by every Group.New) changes when the caller reuses
			// the slice it spread into the call
			w := sliceKeeps(c, f, p, 0)
			c.R.Add(rule, k, "param:"+p.Name()+"/not-retained", c.P.Pos(f.Pos()), w == "", ifelse(w == "", "the slice is copied or only read during the call", "the caller's slice "+p.Name()+" is "+w+": the object built here keeps using the caller's memory — editing or reusing the slice afterwards changes what the finished object accepts, and objects built from one slice are coupled"))
		}
	}
}

// ruleRegexpSplitOnRuneBoundary — C17.R11 / C05.R16 / C02.R17: the literal suffix of a regexp segment is compiled into
// its expression, and an expression has to be valid UTF-8. The common prefix of two patterns is computed byte by
// byte, so two routes whose text differs inside a multi-byte character (ärzte / übersicht) have a common prefix that
// ends in the middle of that character; splitting a regexp segment there makes the second Handle fail with "invalid
// UTF-8" after the existing node was already taken out of the tree. The code that decides where segments are split
// (Segment.Similarity and what it calls) therefore looks at character boundaries: it consults unicode/utf8.
func ruleRegexpSplitOnRuneBoundary(c *Ctx, rule string) {
	c.R.Rule(c.R.Property+"."+rule, 1, "the split point of a regexp segment is moved to a character boundary")
	sim := c.P.Func("syntax.(*Segment).Similarity")
	if sim == nil {
		c.R.Add(rule, "pkg:syntax", "split-point/function", "-", true, "no Similarity function (the split point is computed elsewhere)")
		return
	}
	uses := false
	for _, g := range builderCluster(c, sim) {
		if !strings.HasPrefix(an.FuncKey(g), "syntax.") {
			continue
		}
		an.AllInstrs(g, func(in ssa.Instruction) {
			if call := an.CallOf(in); call != nil && strings.HasPrefix(an.CalleeName(call), "unicode/utf8.") {
				uses = true
			}
		})
	}
	ruleSplitPointIsABoundary(c, rule, sim)
	c.R.Add(rule, c.fk(sim), "split-point/character-boundary-for-regexp-segments", c.P.Pos(sim.Pos()), uses, ifelse(uses, "the split position is checked against character boundaries (unicode/utf8)", "the split position is the byte-wise common prefix and nothing looks at character boundaries: two regexp routes whose literal text differs inside a multi-byte character are split in the middle of it, the suffix no longer compiles (\"invalid UTF-8\"), the registration fails and the route registered first is lost"))
}

// cmpWithConst evaluates an integer comparison between v and a constant with v set to val.
func cmpWithConst(cmp *ssa.BinOp, v ssa.Value, val int64) (bool, bool) {
	var k *ssa.Const
	left := false
	if cmp.X == v {
		k, _ = cmp.Y.(*ssa.Const)
		left = true
	} else if cmp.Y == v {
		k, _ = cmp.X.(*ssa.Const)
	}
	if k == nil || k.Value == nil {
		return false, false
	}
	if k.Value.Kind() != constant.Int {
		return false, false
	}
	kv := k.Int64()
	a, b := val, kv
	if !left {
		a, b = kv, val
	}
	switch cmp.Op {
	case token.LSS:
		return a < b, true
	case token.LEQ:
		return a <= b, true
	case token.GTR:
		return a > b, true
	case token.GEQ:
		return a >= b, true
	case token.EQL:
		return a == b, true
	case token.NEQ:
		return a != b, true
	}
	return false, false
}

// supportedMethodNames: the method names of the tree package's method table (the string constants its package
// initialiser puts into an array literal); the net/http list when the table is not a literal any more.
func supportedMethodNames(c *Ctx) []string {
	var out []string
	seen := map[string]bool{}
	if pkg := c.A.TreeAdd.Pkg; pkg != nil {
		if init := pkg.Func("init"); init != nil {
			an.AllInstrs(init, func(in ssa.Instruction) {
				st, ok := in.(*ssa.Store)
				if !ok {
					return
				}
				if _, isIdx := st.Addr.(*ssa.IndexAddr); !isIdx {
					return
				}
				s, isC := strConst(st.Val)
				if !isC || s == "" || strings.ToUpper(s) != s || strings.ContainsAny(s, " ,/*") || seen[s] {
					return
				}
				seen[s] = true
				out = append(out, s)
			})
		}
	}
	if len(out) < 3 {
		out = []string{"GET", "POST", "DELETE", "PUT", "PATCH", "CONNECT", "TRACE", "HEAD", "OPTIONS"}
	}
	sort.Strings(out)
	return out
}

// ruleOnlyAutomaticKeysAreKeptOnRemove — C04.R16 / C18.R11 / C08.R9: Remove(pattern, methods...) takes out what was
// registered. The only names it passes over are the entries the library generates itself (HEAD, OPTIONS, the 405
// key — C04.R12 is that direction); every other method of the table, named in the list, reaches the deletion of its
// entry. TRACE is such a method on a router without a TRACE handler (C18.R3: it is then registered by hand like any
// other) — a Remove that skips it leaves a route that cannot be taken out by name and stays in every Allow header.
func ruleOnlyAutomaticKeysAreKeptOnRemove(c *Ctx, rule string) {
	a := c.A
	c.R.Rule(c.R.Property+"."+rule, 1, "every method of the table except the automatic entries, named in Remove's list, reaches the deletion of its entry")
	key405, _ := strconv.Unquote(a.NotAllowedKey)
	reserved := map[string]bool{"HEAD": true, "OPTIONS": true, key405: true}
	n := 0
	for _, f := range builderCluster(c, a.TreeRemove) {
		f := f
		// the deletes of f keyed by an element of a list
		type site struct {
			in ssa.Instruction
			k  ssa.Value
		}
		var sites []site
		an.AllInstrs(f, func(in ssa.Instruction) {
			call, ok := builtinCall(in, "delete")
			if !ok {
				return
			}
			if _, isH := fieldLoadOf(call.Args[0], a.NodeT, a.FHandlers); !isH {
				return
			}
			if _, isConst := call.Args[1].(*ssa.Const); isConst {
				return
			}
			if _, _, isElem := an.RangeLoopOf(call.Args[1]); !isElem {
				return
			}
			sites = append(sites, site{in, call.Args[1]})
		})
		if len(sites) == 0 {
			continue
		}
		for _, m := range supportedMethodNames(c) {
			if reserved[m] {
				continue
			}
			n++
			reached := false
			for _, s := range sites {
				if _, ok := c.elemReaches(s.k, s.in, assumeEq(m)); ok {
					reached = true
				}
			}
			c.R.Add(rule, c.fk(f), fmt.Sprintf("named:%q/reaches:delete(handlers,name)", m), c.pos(sites[0].in), reached, ifelse(reached, "the entry of the named method is deleted", fmt.Sprintf("Remove passes over %q like an automatic entry: a handler registered under it by hand (TRACE on a router without a TRACE handler is an ordinary method) cannot be removed by name, keeps answering and stays in Allow, Methods() and Routes()", m)))
		}
	}
	if n == 0 {
		c.R.Add(rule, c.fk(a.TreeRemove), "named-method/reaches:delete", c.P.Pos(a.TreeRemove.Pos()), true, "Remove deletes no entry under a name taken from its list by a builtin delete (another form of removal: not decided here)")
	}
}

// debugIndexSites lists the index and slice expressions outside the serving scope (MUXLINT_DEBUG_SITES).
func debugIndexSites(c *Ctx) {
	for _, f := range c.libFuncs() {
		an.AllInstrs(f, func(in ssa.Instruction) {
			switch x := in.(type) {
			case *ssa.Lookup:
				if _, isMap := x.X.Type().Underlying().(*types.Map); isMap {
					return
				}
				fmt.Fprintf(os.Stderr, "SITE %s %s index %s [%s]\n", c.pos(in), c.fk(f), an.AP(x.X), c.O.Of(x.Index))
			case *ssa.IndexAddr:
				fmt.Fprintf(os.Stderr, "SITE %s %s indexaddr %s [%s]\n", c.pos(in), c.fk(f), an.AP(x.X), c.O.Of(x.Index))
			case *ssa.Index:
				fmt.Fprintf(os.Stderr, "SITE %s %s index %s [%s]\n", c.pos(in), c.fk(f), an.AP(x.X), c.O.Of(x.Index))
			case *ssa.Slice:
				lo, hi := "", ""
				if x.Low != nil {
					lo = c.O.Of(x.Low).String()
				}
				if x.High != nil {
					hi = c.O.Of(x.High).String()
				}
				fmt.Fprintf(os.Stderr, "SITE %s %s slice %s [%s:%s]\n", c.pos(in), c.fk(f), an.AP(x.X), lo, hi)
			}
		})
	}
}

// ruleIndexBoundedByItsOwnLength — C05.R17: a belief check in the sense of Engler et al. Where the code compares an
// index with the length of a collection before using it, it believes that this comparison makes the access safe —
// so the collection measured and the collection indexed must be the same one (or two whose lengths were compared
// for equality). `if l >= len(seg.Value) {return}; s1.Value[l]` measures the receiver and indexes the argument:
// when the argument is the shorter text the access is a runtime fault out of Handle, for patterns CheckSyntax
// accepts. Sites whose index is never compared with a length are not judged here (counted as out of scope).
func ruleIndexBoundedByItsOwnLength(c *Ctx, rule string) {
	c.R.Rule(c.R.Property+"."+rule, 2, "an index that is compared with a length is compared with the length of the collection it indexes")
	stripK := func(v ssa.Value) ssa.Value {
		for {
			bo, ok := v.(*ssa.BinOp)
			if !ok || (bo.Op != token.ADD && bo.Op != token.SUB) {
				return v
			}
			if _, isK := bo.Y.(*ssa.Const); isK {
				v = bo.X
				continue
			}
			if _, isK := bo.X.(*ssa.Const); isK && bo.Op == token.ADD {
				v = bo.Y
				continue
			}
			return v
		}
	}
	lenOf := func(v ssa.Value) (ssa.Value, bool) {
		call, ok := v.(*ssa.Call)
		if !ok {
			return nil, false
		}
		if cc, isLen := builtinCall(call, "len"); isLen {
			return cc.Args[0], true
		}
		return nil, false
	}
	out, ranged := 0, 0
	for _, f := range c.libFuncs() {
		f := f
		// pairs of collections whose lengths are compared for equality somewhere in f
		sameLen := map[[2]string]bool{}
		type cmp struct {
			b    *ssa.BasicBlock
			idx  ssa.Value
			coll ssa.Value
		}
		var cmps []cmp
		an.AllInstrs(f, func(in ssa.Instruction) {
			bo, ok := in.(*ssa.BinOp)
			if !ok {
				return
			}
			switch bo.Op {
			case token.LSS, token.LEQ, token.GTR, token.GEQ, token.EQL, token.NEQ:
			default:
				return
			}
			lx, isLx := lenOf(bo.X)
			ly, isLy := lenOf(bo.Y)
			switch {
			case isLx && isLy:
				if bo.Op == token.EQL || bo.Op == token.NEQ {
					sameLen[[2]string{an.AP(lx), an.AP(ly)}] = true
					sameLen[[2]string{an.AP(ly), an.AP(lx)}] = true
				}
			case isLy:
				cmps = append(cmps, cmp{bo.Block(), stripK(bo.X), ly})
			case isLx:
				cmps = append(cmps, cmp{bo.Block(), stripK(bo.Y), lx})
			}
		})
		if len(cmps) == 0 {
			continue
		}
		an.AllInstrs(f, func(in ssa.Instruction) {
			var coll, idx ssa.Value
			switch x := in.(type) {
			case *ssa.Lookup:
				if _, isMap := x.X.Type().Underlying().(*types.Map); isMap {
					return
				}
				coll, idx = x.X, x.Index
			case *ssa.Index:
				coll, idx = x.X, x.Index
			case *ssa.IndexAddr:
				if _, isPtr := x.X.Type().Underlying().(*types.Pointer); isPtr {
					return
				}
				coll, idx = x.X, x.Index
			default:
				return
			}
			if _, isK := idx.(*ssa.Const); isK {
				return
			}
			base := stripK(idx)
			if _, isK := base.(*ssa.Const); isK {
				return
			}
			var measured []string
			own := false
			for _, cm := range cmps {
				if cm.idx != base || !cm.b.Dominates(in.Block()) {
					continue
				}
				m := an.AP(cm.coll)
				if m == an.AP(coll) || cm.coll == coll || sameLen[[2]string{m, an.AP(coll)}] {
					own = true
				}
				// a slice made with the measured length: make([]T, len(measured))
				if mk, isMk := coll.(*ssa.MakeSlice); isMk {
					if z, isLen := lenOf(mk.Len); isLen && an.AP(z) == m {
						own = true
					}
				}
				measured = append(measured, m)
			}
			if len(measured) == 0 {
				out++
				return
			}
			if ph, isPhi := base.(*ssa.Phi); isRangeIndex(idx) || (isPhi && strings.HasPrefix(ph.Block().Comment, "rangeindex.loop")) {
				ranged++
				return // the index of a range loop (or a constant away from it): over the collection itself, or over its parallel twin (keys[i] / vals[i], segs[i-1])
			}
			sort.Strings(measured)
			measured = dedupStrings(measured)
			construct := fmt.Sprintf("index:%s[%s]/measured:len(%s)", an.AP(coll), c.O.Of(idx), strings.Join(measured, "),len("))
			c.R.Add(rule, c.fk(f), construct, c.pos(in), own, ifelse(own, "the index is compared with the length of the collection it indexes", fmt.Sprintf("the index is compared with len(%s) but used on %s: where %s is the shorter one the access is an index-out-of-range fault (a runtime error, not an error value) for input the length test was written to stop", strings.Join(measured, "), len("), an.AP(coll), an.AP(coll))))
		})
	}
	c.R.Add(rule, "pkg:*", "index-sites-without-a-length-comparison", "-", true, fmt.Sprintf("%d index expressions are never compared with a length (search results, constants: C05.R4 and the shape invariants); %d are the index of a range loop (over the collection itself or a parallel one)", out, ranged))
}

func dedupStrings(in []string) []string {
	var out []string
	for i, s := range in {
		if i == 0 || s != in[i-1] {
			out = append(out, s)
		}
	}
	return out
}

// isRangeIndex: the index variable of a range loop over a slice or string as go/ssa builds it (phi(-1, …) + 1).
func isRangeIndex(v ssa.Value) bool {
	bo, ok := v.(*ssa.BinOp)
	if !ok || bo.Op != token.ADD {
		return false
	}
	phi, ok := bo.X.(*ssa.Phi)
	if !ok || !strings.HasPrefix(phi.Block().Comment, "rangeindex.loop") {
		return false
	}
	k, ok := bo.Y.(*ssa.Const)
	return ok && k.Value != nil && k.Int64() == 1
}

// ruleSplitPointIsABoundary: the second half of C17.R11 — consulting unicode/utf8 is not enough, the position handed
// back has to be one. In the part of Similarity that looks at character boundaries (a byte-wise common prefix is
// computed and a unicode/utf8 function is reachable behind it), every position v returned that is not a constant
// is, on every path from the computation to the return, behind an edge that says one of: v <= 0 (no split),
// v >= len(text) (no split inside this node), utf8.RuneStart(text[v]) (a boundary). One step back by the size of a
// decoded rune is not such an edge: DecodeLastRuneInString on a prefix that ends inside a character reports
// (RuneError, 1), which leaves a split inside every character of three or four bytes.
func ruleSplitPointIsABoundary(c *Ctx, rule string, sim *ssa.Function) {
	isUTF8 := func(in ssa.Instruction) bool {
		call := an.CallOf(in)
		return call != nil && strings.HasPrefix(an.CalleeName(call), "unicode/utf8.")
	}
	var starts []*ssa.Call
	an.AllInstrs(sim, func(in ssa.Instruction) {
		call, ok := in.(*ssa.Call)
		if !ok {
			return
		}
		g := an.StaticCallee(&call.Call)
		if g == nil || !strings.HasPrefix(an.FuncKey(g), "syntax.") || len(call.Call.Args) != 2 {
			return
		}
		if bt, isB := call.Type().Underlying().(*types.Basic); !isB || bt.Kind() != types.Int {
			return
		}
		// a unicode/utf8 call is reachable behind it
		seen := map[*ssa.BasicBlock]bool{}
		work := []*ssa.BasicBlock{}
		found := false
		past := false
		for _, x := range call.Block().Instrs {
			if x == ssa.Instruction(call) {
				past = true
				continue
			}
			if past && isUTF8(x) {
				found = true
			}
		}
		work = append(work, call.Block().Succs...)
		for len(work) > 0 && !found {
			b := work[len(work)-1]
			work = work[:len(work)-1]
			if seen[b] {
				continue
			}
			seen[b] = true
			for _, x := range b.Instrs {
				if isUTF8(x) {
					found = true
				}
			}
			work = append(work, b.Succs...)
		}
		if found {
			starts = append(starts, call)
		}
	})
	for _, c0 := range starts {
		for _, r := range an.Returns(sim) {
			if len(r.Results) != 1 {
				continue
			}
			v := r.Results[0]
			if _, isK := v.(*ssa.Const); isK {
				continue
			}
			establishes := func(b *ssa.BasicBlock, succ int) bool {
				return edgeHas(b, succ, func(cond ssa.Value, truth bool) bool {
					bare, neg := stripNot(cond)
					holds := truth != neg
					switch x := bare.(type) {
					case *ssa.Call:
						if an.CalleeName(&x.Call) != "unicode/utf8.RuneStart" || !holds {
							return false
						}
						switch ix := x.Call.Args[0].(type) {
						case *ssa.Lookup:
							return ix.Index == v
						case *ssa.Index:
							return ix.Index == v
						}
						return false
					case *ssa.BinOp:
						// the segment is not a regexp segment: its suffix is compared byte by byte, any split point will do
						if kx, isK := x.Y.(*ssa.Const); isK && kx.Value != nil && strings.HasSuffix(an.AP(x.X), ".Type") && kx.Value.ExactString() == c.A.Kind("Regexp") {
							if (x.Op == token.NEQ && holds) || (x.Op == token.EQL && !holds) {
								return true
							}
						}
						// v against a constant: the edge is taken for 0 and not for 1
						at0, ok0 := cmpWithConst(x, v, 0)
						at1, ok1 := cmpWithConst(x, v, 1)
						if ok0 && ok1 {
							return at0 == holds && at1 != holds
						}
						// v against the length of a text: v >= len(text)
						isLen := func(y ssa.Value) bool {
							call, ok := y.(*ssa.Call)
							if !ok {
								return false
							}
							_, is := builtinCall(call, "len")
							return is
						}
						switch {
						case x.X == v && isLen(x.Y):
							return (x.Op == token.GEQ && holds) || (x.Op == token.LSS && !holds) || (x.Op == token.EQL && holds) || (x.Op == token.NEQ && !holds)
						case x.Y == v && isLen(x.X):
							return (x.Op == token.LEQ && holds) || (x.Op == token.GTR && !holds) || (x.Op == token.EQL && holds) || (x.Op == token.NEQ && !holds)
						}
					}
					return false
				})
			}
			path := (&an.Query{
				Target:    func(t ssa.Instruction) bool { return t == ssa.Instruction(r) },
				BlockEdge: establishes,
			}).Search(an.After(c0))
			reach := (&an.Query{Target: func(t ssa.Instruction) bool { return t == ssa.Instruction(r) }}).Search(an.After(c0)) != nil
			if !reach {
				continue
			}
			// a position that was moved back (it is not the computed prefix itself any more) may have landed directly
			// behind a parameter: "a parameter is followed by at least one literal byte" has to be tested again for it
			if movedBack(v, c0) && path == nil {
				behind := func(b *ssa.BasicBlock, succ int) bool {
					return edgeHas(b, succ, func(cond ssa.Value, truth bool) bool {
						bare, neg := stripNot(cond)
						holds := truth != neg
						bo, isB := bare.(*ssa.BinOp)
						if !isB {
							return false
						}
						// v <= 0 (nothing to split)
						if at0, ok0 := cmpWithConst(bo, v, 0); ok0 {
							if at1, ok1 := cmpWithConst(bo, v, 1); ok1 && at0 == holds && at1 != holds {
								return true
							}
						}
						// text[v-1] != '}'
						for _, pair := range [][2]ssa.Value{{bo.X, bo.Y}, {bo.Y, bo.X}} {
							k, isK := pair[1].(*ssa.Const)
							if !isK || k.Value == nil || k.Value.Kind() != constant.Int || k.Int64() != '}' {
								continue
							}
							var ix ssa.Value
							switch e := pair[0].(type) {
							case *ssa.Lookup:
								ix = e.Index
							case *ssa.Index:
								ix = e.Index
							}
							sub, isSub := ix.(*ssa.BinOp)
							if ix == nil || !isSub || sub.Op != token.SUB || sub.X != v {
								continue
							}
							if k1, ok := sub.Y.(*ssa.Const); !ok || k1.Value == nil || k1.Int64() != 1 {
								continue
							}
							return (bo.Op == token.NEQ && holds) || (bo.Op == token.EQL && !holds)
						}
						return false
					})
				}
				p2 := (&an.Query{
					Target:    func(t ssa.Instruction) bool { return t == ssa.Instruction(r) },
					BlockEdge: behind,
				}).Search(an.After(c0))
				o2 := c.R.Add(rule, c.fk(sim), fmt.Sprintf("split-point:return(%s)/moved-back/not-directly-behind-a-parameter", c.O.Of(v)), c.pos(r), p2 == nil, ifelse(p2 == nil, "the position that was moved back is tested again for standing directly behind a parameter", "the split position is moved back to a character boundary and returned without testing whether it now stands directly behind a parameter's '}': {no:\\d+}章 and {no:\\d+}篇 are split into a suffix-less regexp node (compiled to match to the end of the path) and children — both routes stay listed and both answer 404"))
				if p2 != nil {
					o2.Path = c.P.PathString(p2)
				}
			}
			o := c.R.Add(rule, c.fk(sim), fmt.Sprintf("split-point:return(%s)/is-a-character-boundary", c.O.Of(v)), c.pos(r), path == nil, ifelse(path == nil, "the position returned is no split (<= 0, >= len) or tested with utf8.RuneStart on every path", "a position can be returned that no path tested with utf8.RuneStart: moved back once by the size of a decoded rune it is still inside a character of three or four bytes (a prefix that ends inside a character decodes as RuneError of width 1), the suffix no longer compiles and the route registered first is lost"))
			if path != nil {
				o.Path = c.P.PathString(path)
			}
		}
	}
}

// ruleAutoHandlersBuiltOnce — C09.R5: "the automatic OPTIONS and 405 handlers of a pattern carry [the middlewares]
// of the call that first registered it", and every factory is invoked once per wrapped handler. The library builds
// those two entries while registering a method; an installation under one of the two constant keys into the
// handler map of an existing node is therefore behind the not-found edge of a lookup of that key in that map (or
// behind "the map is empty / nil": the first registration). Built unconditionally, every later Handle on the
// pattern replaces them by handlers wrapped with its own middlewares and runs the factories again.
func ruleAutoHandlersBuiltOnce(c *Ctx, rule string) {
	a := c.A
	c.R.Rule(c.R.Property+"."+rule, 2, "the automatic OPTIONS and 405 entries of a node are built by the first registration only")
	key405, _ := strconv.Unquote(a.NotAllowedKey)
	n := 0
	for _, f := range c.libFuncs() {
		f := f
		an.AllInstrs(f, func(in ssa.Instruction) {
			mu, ok := in.(*ssa.MapUpdate)
			if !ok {
				return
			}
			base, isH := fieldLoadOf(mu.Map, a.NodeT, a.FHandlers)
			if !isH {
				return
			}
			key, isC := strConst(mu.Key)
			if !isC || (key != "OPTIONS" && key != key405) {
				return
			}
			n++
			dom := an.DominatedByEdge(in, func(b *ssa.BasicBlock, succ int) bool {
				// the not-found edge of handlers[key]
				other := 1 - succ
				if len(b.Succs) == 2 && commaOkEdge(b, other, func(m, k ssa.Value) bool {
					mb, isHm := fieldLoadOf(m, a.NodeT, a.FHandlers)
					ks, isK := strConst(k)
					return isHm && mb == base && isK && ks == key
				}) {
					return true
				}
				// the map is empty or nil
				return edgeHas(b, succ, func(cond ssa.Value, truth bool) bool {
					x, k, eq, ok := an.CondAtom(cond)
					if !ok || eq != truth {
						return false
					}
					if k.Value == nil {
						mb, isHm := fieldLoadOf(x, a.NodeT, a.FHandlers)
						return isHm && mb == base
					}
					if k.Value.Kind() == constant.Int && k.Int64() == 0 {
						t := c.O.Of(x).String()
						return t == "call<builtin:len>("+base+"."+a.FHandlers+")" || (strings.HasPrefix(t, "call<tree.(*node).") && strings.HasSuffix(t, ">("+base+")") && isSizeCall(c, x))
					}
					return false
				})
			})
			c.R.Add(rule, c.fk(f), fmt.Sprintf("install:%s.%s[const%q]/only-when-absent", base, a.FHandlers, key), c.pos(in), dom, ifelse(dom, "built only when the node has no such entry yet", "the automatic entry is installed whether or not the node already has one: each further Handle on the pattern replaces the OPTIONS / 405 handler by one wrapped in the middlewares of that call (the property gives them those of the call that first registered the pattern) and invokes the middleware factories a second time for a handler that was already wrapped"))
		})
	}
	if n == 0 {
		c.R.Add(rule, "pkg:tree", "install:automatic-entries", "-", true, "no installation under a constant automatic key into an existing node's handler map (another form: not decided here)")
	}
}

func isSizeCall(c *Ctx, v ssa.Value) bool {
	call, ok := v.(*ssa.Call)
	if !ok {
		return false
	}
	g := an.StaticCallee(&call.Call)
	return g != nil && isSizeFunc(c, an.Origin(g))
}

// ruleSortKeyIsFixedAtInsertion — C03.R17 / C14.R12: children are sorted when a node is inserted into (or
// split inside) their parent's list, and never again. The order is therefore a function of the registration history
// unless the sort key of a node only reads what is fixed when the node is placed: its segment. A key that reads the
// node's own child list (priority() adds one for a childless node) changes when a route below the node is added or
// removed while the parent's list is not re-sorted: which of two same-kind siblings is tried first then depends on
// the order of unrelated Handle / Remove calls.
func ruleSortKeyIsFixedAtInsertion(c *Ctx, rule string) {
	a := c.A
	c.R.Rule(c.R.Property+"."+rule, 1, "the sort key of a node reads only what is fixed when the node is placed among its siblings (its segment)")
	g := priorityFunc(c)
	if g == nil {
		c.R.Add(rule, "pkg:tree", "sort-key/function", "-", true, "no sort key function found by its role in the comparator (another ordering: not decided here)")
		return
	}
	reads := map[string]ssa.Instruction{}
	for _, f := range builderCluster(c, g) {
		if f != g && (f.Signature.Recv() == nil || !isPtrToNamed(f.Signature.Recv().Type(), a.NodeT)) {
			continue
		}
		an.AllInstrs(f, func(in ssa.Instruction) {
			fa, ok := in.(*ssa.FieldAddr)
			if !ok || !isPtrToNamed(fa.X.Type(), a.NodeT) {
				return
			}
			name := an.FieldName(fa.X.Type(), fa.Field)
			if _, seen := reads[name]; !seen {
				reads[name] = in
			}
		})
	}
	var names []string
	for n := range reads {
		names = append(names, n)
	}
	sort.Strings(names)
	other := 0
	for _, n := range names {
		if n == a.FSegment {
			continue
		}
		other++
		c.R.Add(rule, c.fk(g), "sort-key/reads:"+n, c.pos(reads[n]), false, "the sort key reads the node's field "+n+", which changes after the node was placed among its siblings (a route below it is added or removed) while the parent's list is sorted only on insertion: the order of same-kind siblings, and so the route a request is dispatched to, depends on the history of unrelated registrations")
	}
	if other == 0 {
		c.R.Add(rule, c.fk(g), "sort-key/reads-only:"+a.FSegment, c.P.Pos(g.Pos()), true, "the key is a function of the node's segment")
	}
}

// ruleParameterNamesAreRemembered — C01.R20 / C10.R16 / C17.R12: a pattern with one capturing name twice
// ({lang}/docs/{lang}) reports the second value for both places: the parameters no longer reproduce the request
// path. The parser refuses such patterns by remembering the names it has seen. Every segment it builds is, on
// every path from its construction to the next round of the loop, either known not to capture (a literal, a name
// that is ignored) or remembered: its name becomes a key of a map, or the segment (its name) is carried into the
// next round in a variable. A condition in front of the bookkeeping — only for patterns of three pieces and more —
// lets the names of some patterns go unrecorded, and the duplicate is accepted.
func ruleParameterNamesAreRemembered(c *Ctx, rule string) {
	c.R.Rule(c.R.Property+"."+rule, 1, "the parser remembers the name of every capturing parameter it builds (the duplicate-name test sees them all)")
	parser := c.P.Func("syntax.(*Interceptors).Split")
	if parser == nil {
		c.R.Add(rule, "pkg:syntax", "parser/function", "-", true, "no Interceptors.Split (the parser is elsewhere: not decided here)")
		return
	}
	n := 0
	for _, l := range rangeLoops(parser) {
		l := l
		an.AllInstrs(parser, func(in ssa.Instruction) {
			ex, ok := in.(*ssa.Extract)
			if !ok || ex.Index != 0 {
				return
			}
			call, ok := ex.Tuple.(*ssa.Call)
			if !ok {
				return
			}
			g := an.StaticCallee(&call.Call)
			if g == nil || !strings.HasSuffix(an.FuncKey(g), ".NewSegment") {
				return
			}
			// inside this loop
			inLoop := false
			for _, e := range l.elems {
				if e.Block().Dominates(in.Block()) {
					inLoop = true
				}
			}
			if !inLoop {
				return
			}
			n++
			segAP := an.AP(ex)
			isSegOrName := func(v ssa.Value) bool {
				return v == ssa.Value(ex) || an.AP(v) == segAP+".Name"
			}
			// the memory may be the list of segments built so far, when the duplicate test searches that list:
			// hasParam(segs, seg.Name) — then appending the segment to it is the recording
			consulted := map[ssa.Value]bool{}
			an.AllInstrs(parser, func(x ssa.Instruction) {
				hc, ok := x.(*ssa.Call)
				if !ok || len(hc.Call.Args) != 2 || !isSegOrName(hc.Call.Args[1]) {
					return
				}
				if hg := an.StaticCallee(&hc.Call); hg == nil || !an.IsLibrary(hg) {
					return
				}
				if bt, isB := hc.Type().Underlying().(*types.Basic); !isB || bt.Kind() != types.Bool {
					return
				}
				consulted[hc.Call.Args[0]] = true
			})
			appendsSeg := func(t ssa.Instruction) bool {
				ac, ok := builtinCall(t, "append")
				if !ok || len(ac.Args) != 2 || !consulted[ac.Args[0]] {
					return false
				}
				sl, ok := ac.Args[1].(*ssa.Slice)
				if !ok {
					return false
				}
				al, ok := sl.X.(*ssa.Alloc)
				if !ok {
					return false
				}
				for _, r := range *al.Referrers() {
					ia, ok := r.(*ssa.IndexAddr)
					if !ok {
						continue
					}
					for _, r2 := range *ia.Referrers() {
						if st, ok := r2.(*ssa.Store); ok && st.Val == ssa.Value(ex) {
							return true
						}
					}
				}
				return false
			}
			path := (&an.Query{
				TargetEdge: loopBackEdge(l),
				Block: func(t ssa.Instruction) bool {
					if appendsSeg(t) {
						return true
					}
					mu, ok := t.(*ssa.MapUpdate)
					return ok && isSegOrName(mu.Key)
				},
				BlockEdge: func(b *ssa.BasicBlock, succ int) bool {
					// known not to capture
					if len(b.Instrs) > 0 {
						if br, ok := b.Instrs[len(b.Instrs)-1].(*ssa.If); ok {
							if no, _ := captureTest(c, br.Cond, segAP); no == succ {
								return true
							}
						}
					}
					// carried on in a variable: a phi of the successor takes the segment (its name) from this edge
					nb := b.Succs[succ]
					for pi, p := range nb.Preds {
						if p != b {
							continue
						}
						for _, x := range nb.Instrs {
							phi, ok := x.(*ssa.Phi)
							if !ok {
								break
							}
							if isSegOrName(phi.Edges[pi]) {
								return true
							}
						}
					}
					return false
				},
			}).Search(an.After(in))
			o := c.R.Add(rule, c.fk(parser), "segment:NewSegment/name-remembered-before-the-next-piece", c.pos(in), path == nil, ifelse(path == nil, "every capturing segment's name is recorded (map key or carried variable) before the next piece is parsed", "a capturing segment can be parsed without its name being recorded: a later segment of the same name is not recognised as a duplicate, the pattern is accepted and the second capture overwrites the first — the reported parameters no longer reproduce the request path"))
			if path != nil {
				o.Path = c.P.PathString(path)
			}
		})
	}
	if n == 0 {
		c.R.Add(rule, c.fk(parser), "segment:NewSegment/in-a-loop", c.P.Pos(parser.Pos()), true, "the parser does not build its segments in a range loop (another form: not decided here)")
	}
}

// ruleSameTypedSlotsAreNotCrossed — C08.R12 / C11.R16: the builders of the automatic OPTIONS and 405 handlers travel
// from the user's constructor call through NewGroup / Group.New / NewRouter into tree.New as two parameters of one
// type, side by side. Wherever the module hands two values of one type to two slots of one type — parameters of a
// module function, or fields of one struct — and each value is *named* (a parameter or a field) like the other's
// slot, the two are crossed: OPTIONS is answered by the 405 builder's handler (and, being a found method, gets the
// CORS headers of a served request). The check is exact in what it reports: both names must match the opposite slot.
func ruleSameTypedSlotsAreNotCrossed(c *Ctx, rule string) {
	c.R.Rule(c.R.Property+"."+rule, 0, "two values of one type are not handed to each other's slots (builder for OPTIONS / builder for 405)")
	nameOf := func(v ssa.Value) string {
		switch x := v.(type) {
		case *ssa.Parameter:
			return x.Name()
		case *ssa.UnOp:
			if fa, ok := x.X.(*ssa.FieldAddr); ok && x.Op == token.MUL {
				return an.FieldName(fa.X.Type(), fa.Field)
			}
		}
		return ""
	}
	n := 0
	for _, f := range c.libFuncs() {
		f := f
		// calls
		an.AllInstrs(f, func(in ssa.Instruction) {
			call := an.CallOf(in)
			if call == nil || call.IsInvoke() {
				return
			}
			g := an.StaticCallee(call)
			if g == nil || !an.IsLibrary(g) {
				return
			}
			g = an.Origin(g)
			args := call.Args
			if len(args) != len(g.Params) {
				return
			}
			for i := 0; i < len(args); i++ {
				for j := i + 1; j < len(args); j++ {
					if !types.Identical(g.Params[i].Type(), g.Params[j].Type()) {
						continue
					}
					ni, nj := nameOf(args[i]), nameOf(args[j])
					if ni == "" || nj == "" || ni == nj {
						continue
					}
					n++
					if strings.EqualFold(ni, g.Params[j].Name()) && strings.EqualFold(nj, g.Params[i].Name()) {
						c.R.Add(rule, c.fk(f), fmt.Sprintf("call:%s/args:%s,%s", an.FuncKey(g), ni, nj), c.pos(in), false, fmt.Sprintf("%s is passed as %s and %s as %s: the two same-typed values are crossed — the automatic OPTIONS handler is built by the 405 builder and the other way round (OPTIONS answers 405 with the CORS headers of a served request; unsupported methods answer 200 with Allow)", ni, g.Params[i].Name(), nj, g.Params[j].Name()))
					}
				}
			}
		})
		// stores into two fields of one object
		type fst struct {
			in    ssa.Instruction
			base  string
			field string
			t     types.Type
			val   string
		}
		var sts []fst
		an.AllInstrs(f, func(in ssa.Instruction) {
			st, ok := in.(*ssa.Store)
			if !ok {
				return
			}
			fa, ok := st.Addr.(*ssa.FieldAddr)
			if !ok {
				return
			}
			sts = append(sts, fst{in, an.AP(fa.X), an.FieldName(fa.X.Type(), fa.Field), st.Val.Type(), nameOf(st.Val)})
		})
		for i := 0; i < len(sts); i++ {
			for j := i + 1; j < len(sts); j++ {
				a, b := sts[i], sts[j]
				if a.base != b.base || a.val == "" || b.val == "" || a.field == b.field || !types.Identical(a.t, b.t) {
					continue
				}
				if strings.EqualFold(a.val, b.field) && strings.EqualFold(b.val, a.field) {
					c.R.Add(rule, c.fk(f), fmt.Sprintf("store:%s.%s=%s,%s.%s=%s", a.base, a.field, a.val, b.base, b.field, b.val), c.pos(a.in), false, fmt.Sprintf("the field %s receives %s and the field %s receives %s: the two same-typed values are crossed", a.field, a.val, b.field, b.val))
				}
			}
		}
	}
	c.R.Add(rule, "pkg:*", "same-typed-slots/pairs-examined", "-", true, fmt.Sprintf("%d pairs of named same-typed arguments examined, none crossed beyond those listed", n))
}

// ruleZeroContextIsUsable — C05.R18 / C20.R7: types.Context is an exported struct and the matchers (Hosts.Match, the
// version matchers, the combinators) take the caller's context: a context that did not come from NewContext — the
// zero value — has a nil parameter map. Set "behaves as on a map" for it only because it allocates the map first;
// a store into the field's map that can be reached with the map still nil is a write to a nil map, a runtime panic
// in Hosts.Match / pathVersion.Match for a context the caller declared with `var ctx types.Context`.
func ruleZeroContextIsUsable(c *Ctx, rule string) {
	a := c.A
	c.R.Rule(c.R.Property+"."+rule, 1, "no store into the parameter map of a Context is reachable while the map is nil")
	n := 0
	for _, f := range c.libFuncs() {
		f := f
		if f.Signature.Recv() == nil || !isPtrToNamed(f.Signature.Recv().Type(), a.ContextT) {
			continue
		}
		an.AllInstrs(f, func(in ssa.Instruction) {
			mu, ok := in.(*ssa.MapUpdate)
			if !ok {
				return
			}
			base, field, isField := fieldLoadAny(mu.Map)
			if !isField || base != "recv" {
				return
			}
			n++
			path := (&an.Query{
				Assume: func(cond ssa.Value) (bool, bool) {
					x, k, eq, ok := an.CondAtom(cond)
					if !ok {
						return false, false
					}
					if k.Value == nil && an.AP(x) == "recv."+field {
						return eq, true // the map is nil
					}
					if k.Value != nil && k.Value.Kind() == constant.Int && k.Int64() == 0 && c.O.Of(x).String() == "call<builtin:len>(recv."+field+")" {
						return eq, true // and therefore empty
					}
					return false, false
				},
				Target: func(t ssa.Instruction) bool { return t == in },
				Block: func(t ssa.Instruction) bool {
					b2, f2, _, ok := fieldStoreAny(t)
					return ok && b2 == "recv" && f2 == field
				},
			}).Search(an.Entry(f))
			o := c.R.Add(rule, c.fk(f), "store:recv."+field+"[key]/map-allocated-first", c.pos(in), path == nil, ifelse(path == nil, "the store is reached only with an allocated map", "the store into recv."+field+" is reachable while the map is nil: a Context that did not come from NewContext (the zero value, which the exported type allows and the matchers accept) panics with \"assignment to entry in nil map\" as soon as a matcher records a parameter"))
			if path != nil {
				o.Path = c.P.PathString(path)
			}
		})
	}
	if n == 0 {
		c.R.Add(rule, "pkg:types", "store:params/exists", "-", true, "no method of Context stores into a map field")
	}
}

// fieldLoadAny: v = *(&base.field)
func fieldLoadAny(v ssa.Value) (base, field string, ok bool) {
	u, isU := v.(*ssa.UnOp)
	if !isU || u.Op != token.MUL {
		return "", "", false
	}
	fa, isFA := u.X.(*ssa.FieldAddr)
	if !isFA {
		return "", "", false
	}
	return an.AP(fa.X), an.FieldName(fa.X.Type(), fa.Field), true
}

// ruleStrippedNameIsNotEmpty — C10.R17 / C17.R14 / C05.R19: "{}" and "{:rule}" are refused as parameters without a
// name. The name of a token is what follows the ignored leading '-', so "{-}", "{-:rule}" and "{-:}" have no name
// either — but the emptiness test of the parser looks at the raw text, before the flag is stripped. Wherever the
// syntax package strips the flag (a store of name[1:] into the Name field), the function that does it can fail (it
// has an error result) and every success return behind the strip is behind a test of the stripped name for
// emptiness. Otherwise the pattern is accepted, URL building substitutes params[""] and two such tokens in one
// pattern are refused as duplicates of the name "".
func ruleStrippedNameIsNotEmpty(c *Ctx, rule string) {
	c.R.Rule(c.R.Property+"."+rule, 1, "a parameter name is tested for emptiness after the ignore flag is stripped from it")
	n := 0
	for _, f := range c.libFuncs() {
		f := f
		if !strings.HasPrefix(an.FuncKey(f), "syntax.") {
			continue
		}
		an.AllInstrs(f, func(in ssa.Instruction) {
			st, ok := in.(*ssa.Store)
			if !ok {
				return
			}
			fa, ok := st.Addr.(*ssa.FieldAddr)
			if !ok || an.FieldName(fa.X.Type(), fa.Field) != "Name" {
				return
			}
			sl, ok := st.Val.(*ssa.Slice)
			if !ok || sl.Low == nil {
				return
			}
			if k, isK := sl.Low.(*ssa.Const); !isK || k.Value == nil || k.Int64() != 1 {
				return
			}
			if _, fld, isField := fieldLoadAny(sl.X); !isField || fld != "Name" {
				return
			}
			n++
			base := an.AP(fa.X)
			emptyTest := func(b *ssa.BasicBlock, succ int) bool {
				return edgeHas(b, succ, func(cond ssa.Value, truth bool) bool {
					x, k, eq, ok := an.CondAtom(cond)
					if !ok || k.Value == nil {
						return false
					}
					switch k.Value.Kind() {
					case constant.String:
						// name != "" holds on this edge
						return constant.StringVal(k.Value) == "" && an.AP(x) == base+".Name" && eq != truth
					case constant.Int:
						t := c.O.Of(x).String()
						return k.Int64() == 0 && t == "call<builtin:len>("+base+".Name)" && eq != truth
					}
					return false
				})
			}
			hasErr := an.ErrorResultIndex(f) >= 0
			good := hasErr
			var path []an.Point
			if hasErr {
				path = (&an.Query{
					BlockEdge: emptyTest,
					Target:    func(t ssa.Instruction) bool { r, isRet := t.(*ssa.Return); return isRet && an.IsSuccessReturn(r) },
				}).Search(an.After(in))
				good = path == nil
			}
			o := c.R.Add(rule, c.fk(f), "strip:"+base+".Name=Name[1:]/then-tested-for-emptiness", c.pos(in), good, ifelse(good, "every success return behind the strip is behind a test that the stripped name is not empty", ifelse(!hasErr, "the function that strips the ignore flag cannot fail: a name that consists of the flag alone ({-}, {-:rule}) becomes the empty name and is accepted, although {} and {:rule} are refused — URL building then substitutes params[\"\"]", "a success return is reachable behind the strip without a test of the stripped name: {-} is accepted with the empty name")))
			if path != nil {
				o.Path = c.P.PathString(path)
			}
			// and the callers look at the verdict
			if good {
				for _, call := range an.CallersOf(f) {
					cv, isV := ssa.Value(call), true
					used := false
					if isV {
						for _, r := range *cv.Referrers() {
							switch r.(type) {
							case *ssa.If, *ssa.BinOp, *ssa.Return, *ssa.Extract:
								used = true
							}
						}
					}
					c.R.Add(rule, c.fk(call.Parent()), "call:"+an.FuncKey(f)+"/verdict-used", c.pos(call), used, ifelse(used, "the caller tests or hands on the error", "the caller drops the error of the stripping function: the empty name is accepted after all"))
				}
			}
		})
	}
	if n == 0 {
		c.R.Add(rule, "pkg:syntax", "strip:Name[1:]/exists", "-", true, "the syntax package does not strip a flag byte from a name by slicing (another form: not decided here)")
	}
}

// ruleSplitKeepsThePosition — C03.R18 / C06.R12: a registration that shares a prefix with an existing node splits that
// node: a new head takes its place and the node becomes the head's child. The place matters — siblings of one kind are
// tried in list order, and the stable sort keeps whatever order it finds. A split that takes the node out of the
// parent's list and appends the head at the end moves an *untouched* route behind its same-kind siblings, so a request
// that two of them match changes hands after an unrelated Handle (and stays there after the Remove). In the function
// that splits (it re-assigns the segment of an existing node), the parent's list is changed by storing the head into
// an element of it, not by a removal plus an append.
func ruleSplitKeepsThePosition(c *Ctx, rule string) {
	a := c.A
	c.R.Rule(c.R.Property+"."+rule, 1, "a split puts the new head node where the split node stood among its siblings")
	inTree := func(f *ssa.Function) bool { return strings.HasPrefix(an.FuncKey(f), a.TreePkg.Name()+".") }
	// the splitters: functions of the tree package that store a new segment into a node they received; a helper that
	// does it for its caller (head.adopt(n, seg)) hands the role to the caller
	storesSegment := map[*ssa.Function]bool{}
	for _, f := range c.libFuncs() {
		if !inTree(f) {
			continue
		}
		an.AllInstrs(f, func(in ssa.Instruction) {
			base, field, _, ok := fieldStore(in, a.NodeT)
			if ok && field == a.FSegment && (strings.HasPrefix(base, "p:") || base == "recv") {
				storesSegment[f] = true
			}
		})
	}
	var order []*ssa.Function
	for f := range storesSegment {
		order = append(order, f)
	}
	sort.Slice(order, func(i, j int) bool { return an.FuncKey(order[i]) < an.FuncKey(order[j]) })
	n := 0
	for _, f := range order {
		f := f
		n++
		var removal, elemStore ssa.Instruction
		scan := func(g *ssa.Function) {
			an.AllInstrs(g, func(in ssa.Instruction) {
				if st, isSt := in.(*ssa.Store); isSt {
					if ia, isIA := st.Addr.(*ssa.IndexAddr); isIA {
						if _, isCh := fieldLoadOf(ia.X, a.NodeT, a.FChildren); isCh {
							elemStore = in
						}
					}
				}
				call := an.CallOf(in)
				if call == nil {
					return
				}
				name := an.CalleeName(call)
				if strings.HasPrefix(name, "slices.Delete") && len(call.Args) > 0 {
					if _, isCh := fieldLoadOf(call.Args[0], a.NodeT, a.FChildren); isCh {
						removal = in
					}
				}
				if h := an.StaticCallee(call); h != nil && an.IsLibrary(h) && len(call.Args) > 0 {
					if _, isCh := fieldLoadOf(call.Args[0], a.NodeT, a.FChildren); isCh {
						// a module helper that returns the list without an element (removeNodes)
						shrinks := false
						an.AllInstrs(an.Origin(h), func(x ssa.Instruction) {
							if cc := an.CallOf(x); cc != nil && strings.HasPrefix(an.CalleeName(cc), "slices.Delete") {
								shrinks = true
							}
						})
						if shrinks {
							removal = in
						}
					}
				}
			})
		}
		// the split is the function, the helpers it calls and the functions of the tree package that call it (a helper
		// head.adopt(n, seg) stores the segment for splitNode)
		scan(f)
		an.AllInstrs(f, func(in ssa.Instruction) {
			if call := an.CallOf(in); call != nil {
				if h := an.StaticCallee(call); h != nil && inTree(an.Origin(h)) && an.Origin(h) != f {
					scan(an.Origin(h))
				}
			}
		})
		if !isSplitEntry(c, f) {
			for _, call := range an.CallersOf(f) {
				if g := call.Parent(); g != nil && inTree(g) && g != f {
					scan(g)
				}
			}
		}
		good := removal == nil && elemStore != nil
		at := c.P.Pos(f.Pos())
		if removal != nil {
			at = c.pos(removal)
		}
		c.R.Add(rule, c.fk(f), "split/head-takes-the-place-of-the-node", at, good, ifelse(good, "the head is stored into the element of the parent's list that held the node", "the split takes the node out of its parent's list and the new head is appended at the end: the stable sort leaves it behind its same-kind siblings, so a request that matches two untouched routes changes hands after an unrelated registration — and stays there when that route is removed again"))
	}
	if n == 0 {
		c.R.Add(rule, "pkg:tree", "split/function", "-", true, "no function re-assigns the segment of an existing node (nodes are not split in place: not decided here)")
	}
}

// isSplitEntry: the function also changes a child list other than by appending to its receiver's (it places the head).
func isSplitEntry(c *Ctx, f *ssa.Function) bool {
	a := c.A
	found := false
	an.AllInstrs(f, func(in ssa.Instruction) {
		if st, isSt := in.(*ssa.Store); isSt {
			if ia, isIA := st.Addr.(*ssa.IndexAddr); isIA {
				if _, isCh := fieldLoadOf(ia.X, a.NodeT, a.FChildren); isCh {
					found = true
				}
			}
		}
		if call := an.CallOf(in); call != nil && len(call.Args) > 0 {
			if _, isCh := fieldLoadOf(call.Args[0], a.NodeT, a.FChildren); isCh {
				if h := an.StaticCallee(call); h != nil && an.IsLibrary(h) {
					found = true
				}
			}
		}
	})
	return found
}

// ruleRuleTextHasNoBraces — C01.R21 / C02.R19 / C04.R18: the parser ends a parameter at the first '}' — in NewSegment
// and in the splitter alike — so the rule of "{year:\d{4}}" is `\d{4` and the rest, "}", is literal suffix. Go
// compiles `\d{4` as "a digit followed by the text {4": the route never matches 2024, it matches "2{4}" and reports
// year="2{4", and two such routes share nodes in ways the duplicate test does not see. Until braces are matched by
// depth everywhere, a rule that contains '{' has been cut short and must be refused: in the segment constructor every
// success return behind the store of the rule is behind a test that the rule holds no '{'.
func ruleRuleTextHasNoBraces(c *Ctx, rule string) {
	c.R.Rule(c.R.Property+"."+rule, 1, "a parameter rule that contains '{' (a quantifier cut at its first '}') is refused")
	f := c.P.Func("syntax.(*Interceptors).NewSegment")
	if f == nil {
		c.R.Add(rule, "pkg:syntax", "segment-constructor/function", "-", true, "no Interceptors.NewSegment (segments are built elsewhere: not decided here)")
		return
	}
	n := 0
	an.AllInstrs(f, func(in ssa.Instruction) {
		st, ok := in.(*ssa.Store)
		if !ok {
			return
		}
		fa, ok := st.Addr.(*ssa.FieldAddr)
		if !ok || an.FieldName(fa.X.Type(), fa.Field) != "rule" {
			return
		}
		if _, isK := st.Val.(*ssa.Const); isK {
			return
		}
		n++
		base := an.AP(fa.X)
		isRule := func(v ssa.Value) bool {
			return v == st.Val || an.AP(v) == base+".rule" || c.O.Of(v).String() == c.O.Of(st.Val).String()
		}
		isBrace := func(v ssa.Value) bool {
			k, ok := v.(*ssa.Const)
			if !ok || k.Value == nil {
				return false
			}
			switch k.Value.Kind() {
			case constant.Int:
				return k.Int64() == '{'
			case constant.String:
				return strings.Contains(constant.StringVal(k.Value), "{")
			}
			return false
		}
		noBrace := func(b *ssa.BasicBlock, succ int) bool {
			return edgeHas(b, succ, func(cond ssa.Value, truth bool) bool {
				bare, neg := stripNot(cond)
				holds := truth != neg
				switch x := bare.(type) {
				case *ssa.Call:
					name := an.CalleeName(&x.Call)
					if strings.HasPrefix(name, "strings.Contains") && len(x.Call.Args) == 2 && isRule(x.Call.Args[0]) && isBrace(x.Call.Args[1]) {
						return !holds
					}
				case *ssa.BinOp:
					for _, v := range []ssa.Value{x.X, x.Y} {
						call, ok := v.(*ssa.Call)
						if !ok || !strings.HasPrefix(an.CalleeName(&call.Call), "strings.Index") || len(call.Call.Args) != 2 || !isRule(call.Call.Args[0]) || !isBrace(call.Call.Args[1]) {
							continue
						}
						atM, okM := cmpWithConst(x, v, -1)
						at0, ok0 := cmpWithConst(x, v, 0)
						if okM && ok0 && atM == holds && at0 != holds {
							return true // the edge of "not found"
						}
					}
				}
				return false
			})
		}
		path := (&an.Query{
			BlockEdge: noBrace,
			Target:    func(t ssa.Instruction) bool { r, isRet := t.(*ssa.Return); return isRet && an.IsSuccessReturn(r) },
		}).Search(an.After(in))
		o := c.R.Add(rule, c.fk(f), "rule-text/no-opening-brace", c.pos(in), path == nil, ifelse(path == nil, "every segment handed out has a rule without '{'", "a segment whose rule contains '{' is handed out: the parameter was ended at the first '}', so {year:\\d{4}} is the rule \\d{4 plus the literal suffix } — it never matches 2024, matches 2{4} instead and reports a value that does not satisfy the constraint the pattern states"))
		if path != nil {
			o.Path = c.P.PathString(path)
		}
	})
	if n == 0 {
		c.R.Add(rule, c.fk(f), "rule-text/stored", c.P.Pos(f.Pos()), true, "the constructor stores no rule text (another representation: not decided here)")
	}
}

// ruleEndpointIsAnEmptySuffix — C01.R22 / C02.R20 / C03.R19: an end-point parameter ({path} at the very end of a
// pattern) takes all the remaining text. Whether a parameter is one is a fact about what follows it: nothing. Deciding
// it from the last byte of the segment text ("ends in '}'") also fires for "{id}/a}" — '}' is legal literal text — so
// the route swallows every remainder (/text/QZ/other is served with id="QZ/other") or, for an interceptor, never
// matches its own witness. Every store of the end-point flag in the segment constructor is the emptiness of the
// suffix of that segment.
func ruleEndpointIsAnEmptySuffix(c *Ctx, rule string) {
	c.R.Rule(c.R.Property+"."+rule, 1, "a parameter is an end-point parameter exactly when its literal suffix is empty")
	f := c.P.Func("syntax.(*Interceptors).NewSegment")
	if f == nil {
		c.R.Add(rule, "pkg:syntax", "segment-constructor/function", "-", true, "no Interceptors.NewSegment (segments are built elsewhere: not decided here)")
		return
	}
	n := 0
	for _, g := range builderCluster(c, f) {
		if !strings.HasPrefix(an.FuncKey(g), "syntax.") {
			continue
		}
		g := g
		an.AllInstrs(g, func(in ssa.Instruction) {
			st, ok := in.(*ssa.Store)
			if !ok {
				return
			}
			fa, ok := st.Addr.(*ssa.FieldAddr)
			if !ok || an.FieldName(fa.X.Type(), fa.Field) != "Endpoint" {
				return
			}
			if k, isK := st.Val.(*ssa.Const); isK && k.Value != nil && !constant.BoolVal(k.Value) {
				return // explicitly not an end point
			}
			n++
			base := an.AP(fa.X)
			// the values stored into the Suffix field of the same object in this function
			var suffixVals []string
			an.AllInstrs(g, func(x ssa.Instruction) {
				if s2, ok := x.(*ssa.Store); ok {
					if f2, ok := s2.Addr.(*ssa.FieldAddr); ok && an.FieldName(f2.X.Type(), f2.Field) == "Suffix" && an.AP(f2.X) == base {
						suffixVals = append(suffixVals, c.O.Of(s2.Val).String())
					}
				}
			})
			isSuffix := func(v ssa.Value) bool {
				if an.AP(v) == base+".Suffix" {
					return true
				}
				t := c.O.Of(v).String()
				for _, sv := range suffixVals {
					if t == sv {
						return true
					}
				}
				return false
			}
			good := false
			if bo, isB := st.Val.(*ssa.BinOp); isB && bo.Op == token.EQL {
				for _, pair := range [][2]ssa.Value{{bo.X, bo.Y}, {bo.Y, bo.X}} {
					if s, isC := strConst(pair[1]); isC && s == "" && isSuffix(pair[0]) {
						good = true
					}
					if k, isK := pair[1].(*ssa.Const); isK && k.Value != nil && k.Value.Kind() == constant.Int && k.Int64() == 0 {
						if call, isCall := pair[0].(*ssa.Call); isCall {
							if cc, isLen := builtinCall(call, "len"); isLen && isSuffix(cc.Args[0]) {
								good = true
							}
						}
					}
				}
			}
			c.R.Add(rule, c.fk(g), "store:"+base+".Endpoint/is:Suffix==\"\"", c.pos(in), good, ifelse(good, "the flag is the emptiness of the segment's suffix", "the end-point flag is "+c.O.Of(st.Val).String()+", not the emptiness of the suffix: a literal tail that ends in '}' (legal text) makes {id}/a} an end-point parameter — it is served for every remainder with the tail inside the value, or never matches the requests built from its own pattern"))
		})
	}
	if n == 0 {
		c.R.Add(rule, c.fk(f), "store:Endpoint/exists", c.P.Pos(f.Pos()), true, "the constructor stores no end-point flag (another representation: not decided here)")
	}
}

// noOpeningBraceEdge: the edge says that the text v holds no '{' (strings.IndexByte/Index(v, '{') is -1 / < 0,
// !strings.Contains*(v, "{")).
func noOpeningBraceEdge(c *Ctx, isText func(ssa.Value) bool) func(b *ssa.BasicBlock, succ int) bool {
	return noByteEdge(c, isText, '{')
}

// noByteEdge: the edge says that the text holds no byte ch
func noByteEdge(c *Ctx, isText func(ssa.Value) bool, ch byte) func(b *ssa.BasicBlock, succ int) bool {
	isBrace := func(v ssa.Value) bool {
		k, ok := v.(*ssa.Const)
		if !ok || k.Value == nil {
			return false
		}
		switch k.Value.Kind() {
		case constant.Int:
			return k.Int64() == int64(ch)
		case constant.String:
			return strings.Contains(constant.StringVal(k.Value), string(ch))
		}
		return false
	}
	return func(b *ssa.BasicBlock, succ int) bool {
		return edgeHas(b, succ, func(cond ssa.Value, truth bool) bool {
			bare, neg := stripNot(cond)
			holds := truth != neg
			switch x := bare.(type) {
			case *ssa.Call:
				name := an.CalleeName(&x.Call)
				if strings.HasPrefix(name, "strings.Contains") && len(x.Call.Args) == 2 && isText(x.Call.Args[0]) && isBrace(x.Call.Args[1]) {
					return !holds
				}
			case *ssa.BinOp:
				for _, v := range []ssa.Value{x.X, x.Y} {
					call, ok := v.(*ssa.Call)
					if !ok || !strings.HasPrefix(an.CalleeName(&call.Call), "strings.Index") || len(call.Call.Args) != 2 || !isText(call.Call.Args[0]) || !isBrace(call.Call.Args[1]) {
						continue
					}
					atM, okM := cmpWithConst(x, v, -1)
					at0, ok0 := cmpWithConst(x, v, 0)
					if okM && ok0 && atM == holds && at0 != holds {
						return true
					}
				}
			}
			return false
		})
	}
}

// ruleInstallsAreCounted — C04.R19 / C03.R20: the tree-wide counters (how many live nodes carry a method) decide what
// "OPTIONS *" lists, and Remove / Clean take away what a node carried. That only balances when every registration adds
// what it installed: in a function that installs handlers under the elements of a caller's method list, every path
// from an installation to a return passes the call of the tree's summary builder with that very list (or a complete
// recount). Counting only the methods that are "new to the tree" turns the counters into flags — the first Remove of
// one of two routes with GET then takes GET out of OPTIONS * although the other route still serves it.
func ruleInstallsAreCounted(c *Ctx, rule string) {
	a := c.A
	c.R.Rule(c.R.Property+"."+rule, 1, "every registration adds the methods it installed to the tree-wide counters")
	n := 0
	for _, f := range c.libFuncs() {
		f := f
		if !strings.HasPrefix(an.FuncKey(f), a.TreePkg.Name()+".") {
			continue
		}
		// installations under an element of a parameter list
		var installs []ssa.Instruction
		listAP := ""
		an.AllInstrs(f, func(in ssa.Instruction) {
			mu, ok := in.(*ssa.MapUpdate)
			if !ok {
				return
			}
			if _, isH := fieldLoadOf(mu.Map, a.NodeT, a.FHandlers); !isH {
				return
			}
			_, sl, isElem := an.RangeLoopOf(mu.Key)
			if !isElem {
				return
			}
			if ap := an.AP(sl); strings.HasPrefix(ap, "p:") {
				installs = append(installs, in)
				listAP = ap
			}
		})
		if len(installs) == 0 {
			continue
		}
		n++
		counts := func(t ssa.Instruction) bool {
			call := an.CallOf(t)
			if call == nil {
				return false
			}
			g := an.StaticCallee(call)
			if g == nil {
				return false
			}
			reachesBuilder := an.Origin(g) == an.Origin(a.TreeSummaryBuilder)
			if !reachesBuilder && an.IsLibrary(g) {
				for _, h := range builderCluster(c, an.Origin(g)) {
					if h == an.Origin(a.TreeSummaryBuilder) {
						reachesBuilder = true
					}
				}
			}
			if reachesBuilder {
				for _, arg := range call.Args {
					if an.AP(arg) == listAP {
						return true
					}
				}
				return false
			}
			// a complete recount: a tree method that clears the counters and reaches the builder
			return strings.Contains(an.FuncKey(g), "recount")
		}
		path := (&an.Query{
			Target: func(t ssa.Instruction) bool { r, isRet := t.(*ssa.Return); return isRet && an.IsSuccessReturn(r) },
			Block:  counts,
		}).Search(an.After(installs[0]))
		o := c.R.Add(rule, c.fk(f), "install:handlers["+listAP+"[]]/then:counted-with-the-same-list", c.pos(installs[0]), path == nil, ifelse(path == nil, "every path from the installation to the return adds the registered list to the tree-wide counters", "handlers are installed under the methods of "+listAP+" and a return is reachable without adding that list to the tree-wide counters (the update is conditional, or given a filtered list): the counters stop being counts, and removing one of two routes that serve a method takes the method out of OPTIONS * while the other route still serves it"))
		if path != nil {
			o.Path = c.P.PathString(path)
		}
	}
	if n == 0 {
		c.R.Add(rule, "pkg:tree", "install:handlers[list-element]", "-", true, "no function installs handlers under the elements of a parameter list (another form: not decided here)")
	}
}

// sliceKeeps: where f keeps the memory of its slice parameter p ("" = it does not).
func sliceKeeps(c *Ctx, f *ssa.Function, p *ssa.Parameter, depth int) string {
	where := ""
	// the same memory under another name: a sub-slice, slices.Clip / Grow of it (no copy), a conversion
	var sameMemory func(v ssa.Value, d int) bool
	sameMemory = func(v ssa.Value, d int) bool {
		if v == ssa.Value(p) {
			return true
		}
		if d > 3 {
			return false
		}
		switch y := v.(type) {
		case *ssa.Slice:
			return sameMemory(y.X, d+1)
		case *ssa.ChangeType:
			return sameMemory(y.X, d+1)
		case *ssa.Phi:
			for _, e := range y.Edges {
				if sameMemory(e, d+1) {
					return true
				}
			}
		case *ssa.Call:
			n := an.CalleeName(&y.Call)
			if (strings.HasPrefix(n, "slices.Clip") || strings.HasPrefix(n, "slices.Grow")) && len(y.Call.Args) > 0 {
				return sameMemory(y.Call.Args[0], d+1)
			}
		}
		return false
	}
	an.AllInstrs(f, func(in ssa.Instruction) {
		switch x := in.(type) {
		case *ssa.Store:
			if _, isFA := x.Addr.(*ssa.FieldAddr); isFA && sameMemory(x.Val, 0) {
				where = "stored in a field at " + c.pos(in)
			}
			// a captured parameter lives in a cell: the cell is what the function literal binds
			if cell, isCell := x.Addr.(*ssa.Alloc); isCell && x.Val == ssa.Value(p) {
				for _, ref := range *cell.Referrers() {
					mc, isMC := ref.(*ssa.MakeClosure)
					if !isMC {
						continue
					}
					// unless the cell is overwritten (m = slices.Clone(m)) on every path to the literal
					reaches := (&an.Query{
						Target: func(t ssa.Instruction) bool { return t == ssa.Instruction(mc) },
						Block: func(t ssa.Instruction) bool {
							s2, isSt := t.(*ssa.Store)
							return isSt && s2.Addr == ssa.Value(cell) && s2.Val != ssa.Value(p)
						},
					}).Search(an.After(in))
					if reaches != nil {
						where = "captured by the function literal at " + c.pos(mc)
					}
				}
			}
			if ia, isIA := x.Addr.(*ssa.IndexAddr); isIA && ia.X == ssa.Value(p) {
				where = "written into at " + c.pos(in)
			}
		case *ssa.MakeClosure:
			for _, b := range x.Bindings {
				if b == ssa.Value(p) {
					where = "captured by the function literal at " + c.pos(in)
				}
			}
		case *ssa.Call:
			if depth >= 1 {
				return
			}
			g := an.StaticCallee(&x.Call)
			if g == nil || !an.InModule(g) || len(g.Blocks) == 0 {
				return
			}
			for i, a := range an.CallArgs(&x.Call) {
				if a == ssa.Value(p) && i < len(g.Params) {
					if w := sliceKeeps(c, g, g.Params[i], depth+1); w != "" {
						where = w + " (through " + an.FuncKey(g) + ")"
					}
				}
			}
		}
	})
	return where
}

// movedBack: v is not the computed prefix c0 itself but derived from it by decrements (a loop phi with a "- 1" edge, or
// a subtraction)
func movedBack(v ssa.Value, c0 *ssa.Call) bool {
	if v == ssa.Value(c0) {
		return false
	}
	switch x := v.(type) {
	case *ssa.Phi:
		for _, e := range x.Edges {
			if bo, ok := e.(*ssa.BinOp); ok && bo.Op == token.SUB {
				return true
			}
		}
	case *ssa.BinOp:
		return x.Op == token.SUB
	}
	return false
}

// ruleAccessorsHandOutCopies — C07.R14 / C13.R16: an exported method that returns a slice or map field of its receiver
// as it is hands the caller the object's own memory. For Group.Routers() that memory is the dispatch order: sorting
// the returned list for display reorders which router is asked first, and removing routers while ranging over it
// skips one and leaves a nil in the list (slices.DeleteFunc shifts and zeroes the shared array). Exported methods of
// the module's exported types return such fields through slices.Clone / maps.Clone (or build a fresh value).
func ruleAccessorsHandOutCopies(c *Ctx, rule string) {
	c.R.Rule(c.R.Property+"."+rule, 0, "exported accessors hand out copies of the receiver's slices and maps")
	n := 0
	for _, f := range c.libFuncs() {
		f := f
		if f.Parent() != nil || f.Object() == nil || !f.Object().Exported() || f.Signature.Recv() == nil || !strings.HasPrefix(an.FuncKey(f), "mux.") {
			continue
		}
		for _, r := range an.Returns(f) {
			for i, res := range r.Results {
				switch res.Type().Underlying().(type) {
				case *types.Slice, *types.Map:
				default:
					continue
				}
				v := an.ReturnValue(r, i)
				// the field itself, or the same memory under another name: a sub-slice, slices.Clip / Grow of it
				var origin func(x ssa.Value, d int) (string, string, bool)
				origin = func(x ssa.Value, d int) (string, string, bool) {
					if b, f, ok := fieldLoadAny(x); ok {
						return b, f, true
					}
					if d > 3 {
						return "", "", false
					}
					switch y := x.(type) {
					case *ssa.Slice:
						return origin(y.X, d+1)
					case *ssa.ChangeType:
						return origin(y.X, d+1)
					case *ssa.Call:
						n := an.CalleeName(&y.Call)
						if (strings.HasPrefix(n, "slices.Clip") || strings.HasPrefix(n, "slices.Grow")) && len(y.Call.Args) > 0 {
							return origin(y.Call.Args[0], d+1)
						}
					}
					return "", "", false
				}
				base, field, isField := origin(v, 0)
				if !isField || base != "recv" {
					continue
				}
				n++
				c.R.Add(rule, c.fk(f), "return:recv."+field+"/copy", c.pos(r), false, "the exported method returns the receiver's own "+field+" (no copy): a caller that sorts, truncates or edits the returned value changes the object — for the router list of a Group that is the dispatch order, and a remove-while-ranging loop skips a router and leaves a nil entry")
			}
		}
	}
	c.R.Add(rule, "pkg:mux", "exported-accessors/examined", "-", true, fmt.Sprintf("%d exported methods return a slice or map field of their receiver as it is", n))
}

// ruleLiteralSegmentsSplitBytewise — C03.R23 / C02.R22: a segment of the literal kind holds no parameter (the splitter
// cuts a pattern at every '{' that opens one), so a brace in it — the unclosed '{' of /p/{a, which CheckSyntax and
// the suite accept — is ordinary text. Run through the brace rules of the split-point function, /p/{a and /p/{b
// get no common prefix and become two literal siblings with one first byte: the first-byte index reaches only one of
// them once the parent has five children. In Segment.Similarity every call of the split-point function is behind
// "the segment is not of the literal kind".
func ruleLiteralSegmentsSplitBytewise(c *Ctx, rule string) {
	c.R.Rule(c.R.Property+"."+rule, 1, "two literal segments are compared byte for byte: the brace rules apply to parameter segments only")
	sim := c.P.Func("syntax.(*Segment).Similarity")
	lp := splitPointFunc(c)
	if sim == nil || lp == nil {
		c.R.Add(rule, "pkg:syntax", "similarity/function", "-", true, "no Similarity / split-point function (not decided here)")
		return
	}
	strKind := c.A.Kind("String")
	n := 0
	an.AllInstrs(sim, func(in ssa.Instruction) {
		call := an.CallOf(in)
		if call == nil {
			return
		}
		g := an.StaticCallee(call)
		if g == nil || an.Origin(g) != lp {
			return
		}
		n++
		dom := an.DominatedByEdge(in, func(b *ssa.BasicBlock, succ int) bool {
			return edgeHas(b, succ, func(cond ssa.Value, truth bool) bool {
				x, k, eq, ok := an.CondAtom(cond)
				if !ok || k.Value == nil || !strings.HasSuffix(an.AP(x), ".Type") {
					return false
				}
				if k.Value.ExactString() == strKind {
					return eq != truth // Type != String holds
				}
				return eq == truth // Type == some parameter kind holds
			})
		})
		c.R.Add(rule, c.fk(sim), "call:"+an.FuncKey(lp)+"/only-for-parameter-segments", c.pos(in), dom, ifelse(dom, "the brace rules are applied behind a test that the segment is not literal", "two literal segments are run through the brace rules: a literal '{' (legal text: /p/{a) counts as an open parameter, /p/{a and /p/{b get no common prefix and become two literal siblings with the same first byte — with five and more siblings the first-byte index reaches only one of them and the other route answers 404 while Routes() lists it"))
	})
	if n == 0 {
		c.R.Add(rule, c.fk(sim), "call:split-point/exists", c.P.Pos(sim.Pos()), true, "Similarity does not call the split-point function")
	}
}

// ruleGroupNameIsNotCutShort — C01.R24 / C02.R23: the name of a regexp parameter is pasted into the expression as the
// name of the capture group, "(?P<" + name + ">" + rule + ")". Go ends a group name at the first '>': for {a>b:\d+}
// the expression compiled is (?P<a>b>\d+) — a group a that matches "b>" and digits. The route never matches /12,
// matches /b>12 instead and reports a value that does not satisfy the rule the pattern states. Wherever the syntax
// package builds "P<" + Name + ">", it is behind a test that the name holds no '>'.
func ruleGroupNameIsNotCutShort(c *Ctx, rule string) {
	c.R.Rule(c.R.Property+"."+rule, 1, "a parameter name pasted into a regular expression as a group name holds no '>'")
	n := 0
	for _, f := range c.libFuncs() {
		f := f
		if !strings.HasPrefix(an.FuncKey(f), "syntax.") {
			continue
		}
		an.AllInstrs(f, func(in ssa.Instruction) {
			bo, ok := in.(*ssa.BinOp)
			if !ok || bo.Op != token.ADD {
				return
			}
			// "P<" + name
			pre, isC := strConst(bo.X)
			if !isC || !strings.HasSuffix(pre, "P<") || !strings.HasSuffix(an.AP(bo.Y), ".Name") {
				return
			}
			n++
			nameAP := an.AP(bo.Y)
			dom := an.DominatedByEdge(in, noByteEdge(c, func(v ssa.Value) bool { return v == bo.Y || an.AP(v) == nameAP }, '>'))
			c.R.Add(rule, c.fk(f), "splice:group-name="+nameAP+"/holds-no->", c.pos(in), dom, ifelse(dom, "the name is pasted only behind a test that it holds no '>'", "the parameter name is pasted into the expression as a group name without a test for '>': Go ends the group name at the first '>', so {a>b:\\d+} compiles to (?P<a>b>\\d+) — the route matches /b>12 instead of /12 and reports a value that does not satisfy \\d+"))
		})
	}
	if n == 0 {
		c.R.Add(rule, "pkg:syntax", "splice:group-name", "-", true, "no named capture group is built from a parameter name (another form: not decided here)")
	}
}
