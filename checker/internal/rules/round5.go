package rules

import (
	"fmt"
	"go/token"
	"go/types"
	"os"
	"sort"
	"strconv"
	"strings"

	"golang.org/x/tools/go/ssa"

	"muxlint/internal/an"
)

// round5.go — rules written for the defects the bug hunt found (D30 and later).

// holdsInterceptors: the struct type reaches (through at most three pointer-to-module-struct fields) a field of type
// *syntax.Interceptors: objects of it were configured with an interceptor table.
func holdsInterceptors(c *Ctx, t types.Type, depth int, seen map[*types.Named]bool) bool {
	if p, ok := t.(*types.Pointer); ok {
		t = p.Elem()
	}
	n, ok := types.Unalias(t).(*types.Named)
	if !ok || depth > 3 || seen[n.Origin()] {
		return false
	}
	seen[n.Origin()] = true
	st, ok := n.Underlying().(*types.Struct)
	if !ok || n.Obj().Pkg() == nil || !an.InModulePkg(n.Obj().Pkg()) {
		return false
	}
	tab := c.P.MustFunc("syntax.(*Interceptors).Split").Signature.Recv().Type()
	for i := 0; i < st.NumFields(); i++ {
		ft := st.Field(i).Type()
		if types.Identical(ft, tab) {
			return true
		}
		if holdsInterceptors(c, ft, depth+1, seen) {
			return true
		}
	}
	return false
}

// ruleConfiguredInterceptorsUsed — C10.R13 / C02.R13: a method of an object that was configured with an interceptor
// table (Router → Tree → interceptors) never parses a pattern with a package-level table. Patterns of live routes
// were accepted under the router's table: a rule text that is an interceptor's key there ("digit", "*") is a regular
// expression (or nonsense) for any other table, so building the URL of a route the router serves fails — or a
// different segment list is produced than the one the route was registered with.
func ruleConfiguredInterceptorsUsed(c *Ctx, rule string) {
	c.R.Rule(c.R.Property+"."+rule, 1, "objects configured with an interceptor table parse patterns with that table, never with a package-level one")
	var fromGlobal func(v ssa.Value, depth int) (string, bool)
	fromGlobal = func(v ssa.Value, depth int) (string, bool) {
		if depth > 4 {
			return "", false
		}
		switch x := v.(type) {
		case *ssa.UnOp:
			if x.Op == token.MUL {
				if g, ok := x.X.(*ssa.Global); ok {
					return g.Name(), true
				}
			}
		case *ssa.Phi:
			for _, e := range x.Edges {
				if n, ok := fromGlobal(e, depth+1); ok {
					return n, true
				}
			}
		case *ssa.Call:
			// a helper that hands out the package-level table
			g := an.StaticCallee(&x.Call)
			if g == nil || !an.InModule(g) || len(g.Blocks) == 0 {
				return "", false
			}
			for _, r := range an.Returns(g) {
				if len(r.Results) == 1 {
					if n, ok := fromGlobal(r.Results[0], depth+1); ok {
						return n, true
					}
				}
			}
		}
		return "", false
	}
	n := 0
	for _, f := range c.libFuncs() {
		recv := f.Signature.Recv()
		if recv == nil || !holdsInterceptors(c, recv.Type(), 0, map[*types.Named]bool{}) {
			continue
		}
		an.AllInstrs(f, func(in ssa.Instruction) {
			call := an.CallOf(in)
			if call == nil {
				return
			}
			g := an.StaticCallee(call)
			if g == nil || !strings.HasPrefix(an.FuncKey(g), "syntax.(*Interceptors).") || len(call.Args) == 0 {
				return
			}
			n++
			name, global := fromGlobal(call.Args[0], 0)
			c.R.Add(rule, c.fk(f), "call:"+an.FuncKey(g)+"/table-is-the-configured-one", c.pos(in), !global, ifelse(!global, "the table is "+an.AP(call.Args[0]), "a method of an object that holds its own interceptor table parses with the package-level table "+name+": a live route whose rule is one of the router's interceptors (\"{id:digit}\") is parsed as a regular expression, building its URL fails or yields other segments than the route has"))
		})
	}
	if n == 0 {
		c.R.Add(rule, "pkg:mux", "call:syntax.(*Interceptors).*/exists", "-", false, "no method of a configured object calls the pattern parser any more")
	}
}

// ruleEmptyListElementsIgnored — C12.R11: the requested-header test evaluated (symeval.go) for a request whose
// Access-Control-Request-Headers list has an element that is empty after trimming ("x-a," / ", x-a" / an empty
// line among several): such an element names no header (a recipient ignores empty list elements), so it is never
// the reason for a denial. Scenario: not every header is allowed, the joined header text is not empty, the generic
// element of the split list trims to "", and "" is not a configured header name. No outcome is `false`.
func ruleEmptyListElementsIgnored(c *Ctx, rule string) {
	c.R.Rule(c.R.Property+"."+rule, 1, "an empty element of the requested-header list is not a reason to deny the preflight")
	_, f, _ := corsFuncs(c)
	se := &symEval{c: c}
	emptyEl := func(e string) bool {
		// the element, trimmed or not: of a split list, or cut off the front of the text (strings.Cut)
		e = strings.TrimSuffix(strings.TrimPrefix(e, "CALL:strings.TrimSpace("), ")")
		return e == "EL" || (strings.HasPrefix(e, "CALL:strings.Cut(") && strings.HasSuffix(e, "#0"))
	}
	se.elem = func(slice string) string {
		if strings.HasPrefix(slice, "CALL:strings.Split(") || strings.HasPrefix(slice, "CALL:strings.SplitSeq(") {
			return "EL"
		}
		return "" // the configured list: its generic element
	}
	se.nonEmpty = func(coll string) bool { return strings.HasPrefix(coll, "CALL:strings.Split(") }
	se.truth = func(e string) int {
		b := func(v bool) int {
			if v {
				return 1
			}
			return -1
		}
		switch {
		case e == "RECV.anyHeaders":
			return -1
		case e == "EQ(RECV,NIL)" || e == "EQ(R,NIL)":
			return -1 // the router hands in its own configuration and the request
		case e == "NE(RECV,NIL)" || e == "NE(R,NIL)":
			return 1
		case strings.HasPrefix(e, "CALL:strings.EqualFold(") || strings.HasPrefix(e, "CONTAINS("):
			return -1 // "" is not a configured header
		}
		for _, op := range []string{"EQ", "NE"} {
			if !strings.HasPrefix(e, op+"(") {
				continue
			}
			in := e[len(op)+1 : len(e)-1]
			var x string
			switch {
			case strings.HasSuffix(in, `,CONST:""`):
				x = strings.TrimSuffix(in, `,CONST:""`)
			case strings.HasPrefix(in, `CONST:"",`):
				x = strings.TrimPrefix(in, `CONST:"",`)
			case strings.HasPrefix(in, "LEN(") && strings.HasSuffix(in, "),CONST:0"):
				x = in[4 : len(in)-9]
			default:
				continue
			}
			if emptyEl(x) {
				return b(op == "EQ")
			}
			return b(op == "NE") // the header text as a whole is not empty
		}
		return 0
	}
	se.model = func(se *symEval, name string, call *ssa.CallCommon, args []sval, st *sstate) ([]sval, bool) {
		switch name {
		case "slices.ContainsFunc", "slices.IndexFunc":
			if len(args) == 2 && args[1].e == "FUNC" {
				res := se.run(args[1].fn, []sval{sv("AH")}, args[1].free, st, 1)
				if len(res) >= 1 && len(res[0].ret) == 1 {
					if name == "slices.ContainsFunc" {
						return []sval{sv("CONTAINS(" + res[0].ret[0].e + ")")}, true
					}
				}
			}
		case "slices.Contains":
			return []sval{sv("CONTAINS(" + args[0].e + "," + args[1].e + ")")}, true
		}
		return nil, false
	}
	var bad []string
	outs := se.outcomes(f, []sval{sv("RECV"), sv("R")})
	for _, o := range outs {
		if os.Getenv("MUXLINT_DEBUG_R11") != "" {
			fmt.Fprintln(os.Stderr, "R11 outcome:", o.String())
		}
		// only a denial is a violation; a path the evaluator cannot follow (a hand-written scanning loop) decides nothing
		if o.ret == "CONST:false" {
			bad = append(bad, o.ret)
		}
	}
	ok := len(bad) == 0 && len(outs) > 0
	c.R.Add(rule, c.fk(f), "scenario:empty-list-element/not-denied", c.P.Pos(f.Pos()), ok, ifelse(ok, fmt.Sprintf("with an element that trims to \"\" every outcome is true (%d outcomes)", len(outs)), "a list element that is empty after trimming (\"x-a,\" or an empty line among several) is looked up in the allowed headers like a name, is not found, and the preflight is denied although every header it names is allowed: outcomes "+strings.Join(bad, " | ")))
}

// ruleNodeMethodSetReadOnce — C06.R10 / C12.R12: code that answers one request from a node's method set reads that set
// once. Methods() and AllowHeader() each take the tree lock for themselves; between two reads a Remove or Handle of
// another goroutine can change the set, and a response assembled from both (a preflight approved by the first read,
// answered with the list of the second) is one the router could give at no instant. Checked in every library
// function outside the tree package: no path leads from one read of a node's method set to another read on the same
// node.
func ruleNodeMethodSetReadOnce(c *Ctx, rule string) {
	c.R.Rule(c.R.Property+"."+rule, 1, "one decision about a node's method set is made from one read of it")
	isRead := func(in ssa.Instruction) (string, string, bool) {
		call := an.CallOf(in)
		if call == nil {
			return "", "", false
		}
		switch n := an.CalleeName(call); n {
		case "invoke:types.Node.Methods", "invoke:types.Node.AllowHeader":
			return an.AP(call.Value), strings.TrimPrefix(n, "invoke:types.Node."), true
		}
		return "", "", false
	}
	n := 0
	for _, f := range c.libFuncs() {
		if strings.HasPrefix(an.FuncKey(f), c.A.TreePkg.Name()+".") {
			continue
		}
		var reads []ssa.Instruction
		an.AllInstrs(f, func(in ssa.Instruction) {
			if _, _, ok := isRead(in); ok {
				reads = append(reads, in)
			}
		})
		for _, a := range reads {
			na, ma, _ := isRead(a)
			n++
			var second ssa.Instruction
			path := (&an.Query{
				Target: func(t ssa.Instruction) bool {
					nb, _, ok := isRead(t)
					if ok && nb == na {
						second = t
						return true
					}
					return false
				},
			}).Search(an.After(a))
			mb := ""
			if second != nil {
				_, mb, _ = isRead(second)
			}
			o := c.R.Add(rule, c.fk(f), "read:"+na+"."+ma+"/only-read-on-its-path", c.pos(a), path == nil, ifelse(path == nil, "no second read of the node's method set follows", "after "+ma+"() the same node's method set is read again ("+mb+"()) under a separate lock: a Remove or Handle in between makes the two reads disagree, and the response (a preflight approved for a method the returned list does not contain) matches no instant of the router"))
			if path != nil {
				o.Path = c.P.PathString(path)
			}
		}
	}
	if n == 0 {
		c.R.Add(rule, "pkg:mux", "read:node-method-set/exists", "-", false, "no library function outside the tree reads a node's method set any more (the CORS preflight test could not be found)")
	}
}

// rulePreflightNotAgainstRootUnion — C11.R12: Tree.Handler maps some request paths ("*" and the empty path of an
// absolute-form request target) to the root node, whose method set is the union of the methods of every route (it
// exists for the Allow header of `OPTIONS *`). That set says nothing about what the requested address serves, so the
// CORS procedure never tests a requested method against it: for every path constant Tree.Handler compares the
// request path with, no path through cors.handle under "the request path is that constant" reaches a read of the
// node's method set. (Otherwise a preflight for DELETE on the empty path is granted as soon as any route serves
// DELETE.)
func rulePreflightNotAgainstRootUnion(c *Ctx, rule string) {
	c.R.Rule(c.R.Property+"."+rule, 1, "a preflight is never approved against the root node's union of all methods")
	handle, _, _ := corsFuncs(c)
	var consts []string
	seen := map[string]bool{}
	an.AllInstrs(c.A.TreeHandler, func(in ssa.Instruction) {
		bo, ok := in.(*ssa.BinOp)
		if !ok || (bo.Op != token.EQL && bo.Op != token.NEQ) {
			return
		}
		for _, pair := range [][2]ssa.Value{{bo.X, bo.Y}, {bo.Y, bo.X}} {
			k, isS := strConst(pair[1])
			if isS && strings.HasSuffix(an.AP(pair[0]), ".Path") && !seen[k] {
				seen[k] = true
				consts = append(consts, k)
			}
		}
	})
	sort.Strings(consts)
	for _, k := range consts {
		k := k
		assume := func(cond ssa.Value) (bool, bool) {
			v, neg := stripNot(cond)
			bo, ok := v.(*ssa.BinOp)
			if !ok || (bo.Op != token.EQL && bo.Op != token.NEQ) {
				return false, false
			}
			for _, pair := range [][2]ssa.Value{{bo.X, bo.Y}, {bo.Y, bo.X}} {
				s, isS := strConst(pair[1])
				if isS && strings.HasSuffix(an.AP(pair[0]), ".URL.Path") {
					return ((s == k) == (bo.Op == token.EQL)) != neg, true
				}
			}
			return false, false
		}
		path := (&an.Query{
			Assume: assume,
			Facts:  true,
			Deep:   deepDefault,
			Target: func(t ssa.Instruction) bool {
				call := an.CallOf(t)
				if call == nil {
					return false
				}
				n := an.CalleeName(call)
				return n == "invoke:types.Node.Methods" || n == "invoke:types.Node.AllowHeader"
			},
		}).Search(an.Entry(handle))
		o := c.R.Add(rule, c.fk(handle), "path="+strconv.Quote(k)+"/method-set-of-the-root-not-consulted", c.P.Pos(handle.Pos()), path == nil, ifelse(path == nil, "for this path the CORS procedure does not consult the node's method set", "Tree.Handler answers the request path "+strconv.Quote(k)+" with the root node, whose method set is the union over all routes, and the CORS procedure tests the requested method against it: a preflight for a method that any route serves is granted on this path although the path itself serves only OPTIONS"))
		if path != nil {
			o.Path = c.P.PathString(path)
		}
	}
	if len(consts) == 0 {
		c.R.Add(rule, c.fk(c.A.TreeHandler), "root-mapped-paths/exist", c.P.Pos(c.A.TreeHandler.Pos()), true, "Tree.Handler maps no constant path to the root node")
	}
}

// ruleSuffixSearchResumesAtNextByte — C02.R14 / C01.R16: a named or interceptor parameter followed by literal text
// takes the shortest text its constraint accepts and after which that literal text occurs. When the constraint
// rejects the text before an occurrence of the literal, the next occurrence is searched from the byte after the
// *start* of the rejected one: literals that overlap themselves ("--" in "---", "11" in "111") have occurrences
// that begin inside the rejected one, and resuming after its end skips them (404, or a lower-priority route).
// Every re-search `strings.Index(text[low:], suffix)` in the syntax package has low = position + 1, and the position
// is advanced by the same amount.
func ruleSuffixSearchResumesAtNextByte(c *Ctx, rule string) {
	c.R.Rule(c.R.Property+"."+rule, 1, "after a rejected occurrence of a parameter's literal suffix the search resumes at the next byte")
	n := 0
	for _, f := range c.libFuncs() {
		if !strings.HasPrefix(an.FuncKey(f), "syntax.") {
			continue
		}
		an.AllInstrs(f, func(in ssa.Instruction) {
			call := an.CallOf(in)
			if call == nil || an.CalleeName(call) != "strings.Index" || !strings.HasSuffix(an.AP(call.Args[1]), ".Suffix") {
				return
			}
			sl, ok := call.Args[0].(*ssa.Slice)
			if !ok || sl.Low == nil {
				return
			}
			n++
			low := c.O.Of(sl.Low).String()
			bo, isAdd := sl.Low.(*ssa.BinOp)
			good := false
			if isAdd && bo.Op == token.ADD {
				for _, k := range []ssa.Value{bo.X, bo.Y} {
					if kc, isK := k.(*ssa.Const); isK && an.ConstKey(kc) == "1" {
						good = true
					}
				}
			}
			c.R.Add(rule, c.fk(f), "re-search:strings.Index(text[low:],Suffix)/low=position+1", c.pos(in), good, ifelse(good, "the search resumes one byte after the start of the rejected occurrence ("+low+")", "after the constraint rejected the text before an occurrence of the suffix, the search resumes at "+low+", behind the whole occurrence: an occurrence that overlaps the rejected one (\"--\" in \"---\") is never tried, the request is a 404 or goes to a route of lower priority"))
			// the position is advanced consistently: some addition to the position uses the result of this search plus 1
			adv := false
			if v, isVal := in.(ssa.Value); isVal {
				for _, ref := range *v.Referrers() {
					if b1, ok := ref.(*ssa.BinOp); ok && b1.Op == token.ADD {
						for _, r2 := range *b1.Referrers() {
							if b2, ok := r2.(*ssa.BinOp); ok && b2.Op == token.ADD {
								t := c.O.Of(b2).String()
								if strings.Contains(t, "1") && !strings.Contains(t, "len") {
									adv = true
								}
							}
						}
						t := c.O.Of(b1).String()
						if strings.Contains(t, ", 1)") || strings.Contains(t, "(1, ") {
							adv = true
						}
					}
				}
			}
			if good {
				c.R.Add(rule, c.fk(f), "re-search/position+=found+1", c.pos(in), adv, ifelse(adv, "the position moves to the occurrence found", "the position is not advanced by (offset found + 1): the capture and the remaining path are cut at the wrong place"))
			}
		})
	}
	if n == 0 {
		c.R.Add(rule, "pkg:syntax", "re-search/exists", "-", true, "no re-search loop over a parameter's suffix (one search decides)")
	}
}

// ruleRegexpSuffixComparedBytewise — C01.R17 / C02.R15: literal text matches byte for byte. A regexp parameter's
// literal suffix is compiled into its expression (QuoteMeta), and Go's regexp engine decodes every invalid UTF-8
// byte of the input as U+FFFD — which equals a U+FFFD rune in the pattern's suffix, so "/1/\xff" matched the route
// "/{id:\d+}/�". Wherever the syntax package consumes request path after a regexp search (a store to
// Context.Path after a Find* call on the segment's expression), the path goes through the true edge of a byte-wise
// comparison with the segment's Suffix (==, strings.HasPrefix, strings.HasSuffix).
func ruleRegexpSuffixComparedBytewise(c *Ctx, rule string) {
	c.R.Rule(c.R.Property+"."+rule, 1, "what a regexp search accepted as the literal suffix is compared with it byte for byte")
	suffixTrue := func(b *ssa.BasicBlock, succ int) bool {
		return edgeHas(b, succ, func(cond ssa.Value, truth bool) bool {
			switch x := cond.(type) {
			case *ssa.BinOp:
				if x.Op != token.EQL && x.Op != token.NEQ {
					return false
				}
				if strings.HasSuffix(an.AP(x.X), ".Suffix") || strings.HasSuffix(an.AP(x.Y), ".Suffix") {
					return (x.Op == token.EQL) == truth
				}
			case *ssa.Call:
				switch an.CalleeName(&x.Call) {
				case "strings.HasPrefix", "strings.HasSuffix":
					return strings.HasSuffix(an.AP(x.Call.Args[1]), ".Suffix") && truth
				}
			}
			return false
		})
	}
	n := 0
	for _, f := range c.libFuncs() {
		if !strings.HasPrefix(an.FuncKey(f), "syntax.") {
			continue
		}
		an.AllInstrs(f, func(in ssa.Instruction) {
			call := an.CallOf(in)
			if call == nil || !strings.HasPrefix(an.CalleeName(call), "regexp.(*Regexp).Find") || !strings.HasSuffix(an.AP(call.Args[0]), ".expr") {
				return
			}
			// the searched text is the request path
			if _, isPath := isCtxPathField(c, call.Args[1]); !isPath {
				return
			}
			n++
			path := (&an.Query{
				Target: func(t ssa.Instruction) bool {
					st, ok := t.(*ssa.Store)
					if !ok {
						return false
					}
					_, isPath := isCtxPathField(c, st.Addr)
					return isPath
				},
				BlockEdge: suffixTrue,
			}).Search(an.After(in))
			o := c.R.Add(rule, c.fk(f), "search:"+strings.TrimPrefix(an.CalleeName(call), "regexp.(*Regexp).")+"/suffix-compared-bytewise", c.pos(in), path == nil, ifelse(path == nil, "the path is consumed only after the text the expression took for the suffix was compared with it byte for byte", "the request path is consumed on the word of the regular expression alone: the engine reads every invalid UTF-8 byte as U+FFFD, so a request with a stray byte where the pattern's literal text has U+FFFD is handed to the route although its literal text differs"))
			if path != nil {
				o.Path = c.P.PathString(path)
			}
		})
	}
	if n == 0 {
		c.R.Add(rule, "pkg:syntax", "regexp-search-of-the-path/exists", "-", true, "the request path is not searched with a regular expression")
	}
}

// ruleExhaustedPathPrefersTheNode — C03.R9 / C02.R16: when the request path is used up at a node that has handlers,
// that node is the match: its pattern is the request path, literal text down to the last byte. Trying the children
// first hands the request to a child that accepts the empty rest — an end-point named parameter, `{x:\d*}` — with an
// empty value, and the node's own route (`/s/` beside `/s/{id}`) cannot be reached at all: the literal route loses to
// a parameter, and its methods are answered with the child's. In every scanning function no child is attempted on a
// path on which len(ctx.Path) == 0 and the node has handlers.
func ruleExhaustedPathPrefersTheNode(c *Ctx, rule string) {
	c.R.Rule(c.R.Property+"."+rule, 1, "a node with handlers is the match when the request path is used up: no child is tried before it")
	a := c.A
	n := 0
	done := map[*ssa.Function]bool{}
	isAttempt := map[ssa.Instruction]bool{}
	for _, s2 := range attemptSites(c) {
		isAttempt[s2.in] = true
	}
	// the functions the search recurses into (helpers that try one child on behalf of them are entered by the query)
	isBT := map[*ssa.Function]bool{}
	for _, f := range c.A.Backtrackers {
		isBT[an.Origin(f)] = true
	}
	entered := map[*ssa.Function]bool{} // called by itself, or from a function that is not part of the search
	for _, g := range c.libFuncs() {
		an.AllInstrs(g, func(in ssa.Instruction) {
			if call := an.CallOf(in); call != nil {
				if callee := an.StaticCallee(call); callee != nil && isBT[an.Origin(callee)] {
					if an.Origin(g) == an.Origin(callee) || !isBT[an.Origin(g)] {
						entered[an.Origin(callee)] = true
					}
				}
			}
		})
	}
	for _, f := range c.A.Backtrackers {
		if done[f] || len(f.Params) == 0 || !isPtrToNamed(f.Params[0].Type(), a.NodeT) || !entered[an.Origin(f)] {
			continue
		}
		done[f] = true
		assume := func(cond ssa.Value) (bool, bool) {
			v, neg := stripNot(cond)
			bo, ok := v.(*ssa.BinOp)
			if !ok {
				return false, false
			}
			kc, isK := bo.Y.(*ssa.Const)
			call, isCall := bo.X.(*ssa.Call)
			if !isK || !isCall || an.ConstKey(kc) != "0" {
				return false, false
			}
			x := int64(-1)
			if cc, isLen := builtinCall(call, "len"); isLen {
				if _, isPath := isCtxPathField(c, cc.Args[0]); isPath {
					x = 0 // the path is used up
				} else if ap := an.AP(cc.Args[0]); ap == "recv."+a.FHandlers {
					x = 1 // the node has handlers
				}
			} else if g := an.StaticCallee(&call.Call); g != nil && isSizeFunc(c, g) && an.AP(call.Call.Args[0]) == "recv" {
				x = 1
			}
			if x < 0 {
				return false, false
			}
			var val bool
			switch bo.Op {
			case token.EQL:
				val = x == 0
			case token.NEQ:
				val = x != 0
			case token.GTR:
				val = x > 0
			case token.GEQ:
				val = x >= 0
			case token.LSS:
				val = x < 0
			case token.LEQ:
				val = x <= 0
			default:
				return false, false
			}
			return val != neg, true
		}
		n++
		path := (&an.Query{
			Assume: assume,
			Facts:  true,
			Deep:   deepDefault,
			Target: func(t ssa.Instruction) bool { return isAttempt[t] },
		}).Search(an.Entry(f))
		o := c.R.Add(rule, c.fk(f), "path-used-up∧node-has-handlers/no-child-attempted", c.P.Pos(f.Pos()), path == nil, ifelse(path == nil, "with the path used up at a node with handlers the scan returns the node without trying a child", "with the request path used up at a node that has handlers, the children are still tried first: a child that accepts the empty rest (an end-point parameter) wins with an empty value, and the node's own route — the literal one, `/s/` beside `/s/{id}` — is unreachable; its methods are answered from the child"))
		if path != nil {
			o.Path = c.P.PathString(path)
		}
	}
	if n == 0 {
		c.R.Add(rule, "pkg:tree", "scanner/exists", "-", false, "no scanning function found")
	}
}

// ruleAmbiguitySkipIsTextLength — C17.R10: the ambiguity search skips, in the pattern being registered, the text of
// the parameter segment it has just compared — as many bytes as that segment's text has. The count is taken from
// the text itself (len(Value)), minus a part of the suffix at most; a length re-computed from the parts ("{}" + name
// + rule + ':' when there is a rule + suffix) misses the ':' of the documented form `{name:}`, the search resumes one
// byte early and `/x/{key:}/a` is accepted beside `/x/{id:}/a` (and unrelated patterns are rejected).
// Every value a syntax function returns into the slice bound `pattern[l:]` of the search is built from len(Value)
// and len(Suffix) of segments only.
func ruleAmbiguitySkipIsTextLength(c *Ctx, rule string) {
	c.R.Rule(c.R.Property+"."+rule, 1, "the ambiguity search skips exactly the text of the compared segment")
	search := c.P.Func("tree.(*node).checkAmbiguous")
	if search == nil {
		c.R.Add(rule, "pkg:tree", "ambiguity-search/exists", "-", true, "no separate ambiguity search (decided elsewhere)")
		return
	}
	n := 0
	an.AllInstrs(search, func(in ssa.Instruction) {
		sl, ok := in.(*ssa.Slice)
		if !ok || sl.Low == nil || !isStringType(sl.X.Type()) {
			return
		}
		call, isCall := sl.Low.(*ssa.Call)
		if !isCall {
			return
		}
		g := an.StaticCallee(&call.Call)
		if g == nil || !strings.HasPrefix(an.FuncKey(g), "syntax.") {
			return
		}
		for i, r := range an.Returns(g) {
			v := an.ReturnValue(r, 0)
			if k, isK := v.(*ssa.Const); isK && an.ConstKey(k) == "0" {
				continue
			}
			n++
			t := c.O.Of(v).String()
			good := strings.Contains(t, ".Value)") && !strings.Contains(t, "ambiguousLength") && !strings.Contains(t, ".Name") && !strings.Contains(t, ".rule")
			c.R.Add(rule, c.fk(g), fmt.Sprintf("return#%d/skip=len(text)", i), c.pos(r), good, ifelse(good, "the bytes skipped are "+t, "the number of pattern bytes the ambiguity search skips is "+t+", re-computed from the segment's parts instead of taken from its text: for `{name:}` (empty rule) the ':' is not counted, the search resumes one byte early — a pattern identical up to the name to the only other route is accepted, and an unrelated one is rejected as ambiguous"))
		}
	})
	if n == 0 {
		c.R.Add(rule, c.fk(search), "skip-length/from-the-syntax-package", c.P.Pos(search.Pos()), false, "the ambiguity search no longer takes the number of bytes to skip from the syntax package")
	}
}

// ruleOnlyTheWholePatternIsJudged — C05.R13: Handle and CheckSyntax agree on what a well-formed pattern is because
// both ask the parser about the whole pattern. A search that walks the tree hands the parser *remainders* of the
// pattern (the text after the nodes it has descended through); a remainder cut inside one of the pattern's own
// parameters (a literal node "{a" under the pattern "/{a{}") does not parse although the pattern does. The parser's
// verdict on a remainder is therefore never returned: in every function of the tree package that is called with a
// slice of its own string parameter (a recursive walk over remainders), the error of Interceptors.Split on that
// parameter does not reach a return.
func ruleOnlyTheWholePatternIsJudged(c *Ctx, rule string) {
	c.R.Rule(c.R.Property+"."+rule, 1, "the parser's verdict on a part of a pattern is never reported as the verdict on the pattern")
	split := c.P.MustFunc("syntax.(*Interceptors).Split")
	n := 0
	for _, f := range c.libFuncs() {
		if !strings.HasPrefix(an.FuncKey(f), c.A.TreePkg.Name()+".") {
			continue
		}
		// string parameters that receive a remainder (a slice of the same parameter) at a recursive call
		remainder := map[*ssa.Parameter]bool{}
		an.AllInstrs(f, func(in ssa.Instruction) {
			call := an.CallOf(in)
			if call == nil {
				return
			}
			if g := an.StaticCallee(call); g == nil || an.Origin(g) != an.Origin(f) {
				return
			}
			for i, a := range an.CallArgs(call) {
				if sl, ok := a.(*ssa.Slice); ok && i < len(f.Params) {
					if p, isP := sl.X.(*ssa.Parameter); isP && p == f.Params[i] {
						remainder[p] = true
					}
				}
			}
		})
		if len(remainder) == 0 {
			continue
		}
		an.AllInstrs(f, func(in ssa.Instruction) {
			call, ok := in.(*ssa.Call)
			if !ok {
				return
			}
			g := an.StaticCallee(&call.Call)
			if g == nil || an.Origin(g) != an.Origin(split) || len(call.Call.Args) != 2 {
				return
			}
			p, isP := call.Call.Args[1].(*ssa.Parameter)
			if !isP || !remainder[p] {
				return
			}
			n++
			returned := false
			var follow func(v ssa.Value, depth int)
			follow = func(v ssa.Value, depth int) {
				if depth > 4 || v.Referrers() == nil {
					return
				}
				for _, r := range *v.Referrers() {
					switch x := r.(type) {
					case *ssa.Return:
						returned = true
					case *ssa.Phi:
						follow(x, depth+1)
					case *ssa.MakeInterface:
						follow(x, depth+1)
					case *ssa.Store:
						returned = true // a named result or a variable read later
					}
				}
			}
			for _, r := range *call.Referrers() {
				if ex, isEx := r.(*ssa.Extract); isEx && ex.Index == 1 {
					follow(ex, 0)
				}
			}
			c.R.Add(rule, c.fk(f), "call:Interceptors.Split("+p.Name()+"=remainder)/error-not-returned", c.pos(in), !returned, ifelse(!returned, "a remainder that does not parse is skipped; the whole pattern is judged by Tree.Add", "the walk hands the parser the remainder of the pattern after the nodes it descended through and returns the parser's error: a literal node that ends inside one of the pattern's own parameters (\"{a\" under \"/{a{}\") leaves a remainder (\"{}\") that does not parse, and Handle rejects with a syntax error a pattern CheckSyntax accepts"))
		})
	}
	if n == 0 {
		c.R.Add(rule, "pkg:tree", "parser-on-remainders/exists", "-", true, "no walk over remainders consults the parser")
	}
}

// ruleAnswerFromOneSection — C06.R11: a response is one the router could have produced at one instant when everything
// it says about the matched node was read in the critical section that found the node. Tree.Handler finds node and
// handler under the read lock and releases it; what is read from the node afterwards (types.Node.Methods /
// AllowHeader take the lock again for themselves) belongs to a later instant — after a concurrent Remove the same
// request is answered 405 with an empty Allow, a combination no instant produces. The obligation: on no path of
// Router.serveContext is the node's method set read (by library code: the CORS procedure) after the lookup returned.
// The automatic 405 / OPTIONS handlers of the user's builders read it in the same way, out of reach of this rule.
func ruleAnswerFromOneSection(c *Ctx, rule string) {
	c.R.Rule(c.R.Property+"."+rule, 1, "what a response says about the matched node is read in the critical section that found it")
	serve := c.P.MustFunc("mux.(*Router).serveContext")
	n := 0
	an.AllInstrs(serve, func(in ssa.Instruction) {
		if _, ok := calleeIs(in, c.A.TreeHandler); !ok {
			return
		}
		n++
		path := (&an.Query{
			Deep: deepDefault,
			Target: func(t ssa.Instruction) bool {
				call := an.CallOf(t)
				if call == nil {
					return false
				}
				nm := an.CalleeName(call)
				return nm == "invoke:types.Node.Methods" || nm == "invoke:types.Node.AllowHeader"
			},
		}).Search(an.After(in))
		o := c.R.Add(rule, c.fk(serve), "after:Tree.Handler/node-method-set-not-read-again", c.pos(in), path == nil, ifelse(path == nil, "after the lookup nothing reads the node's method set under another acquisition", "after Tree.Handler released the tree lock the response is completed from a second read of the node's method set (types.Node.Methods / AllowHeader lock for themselves): a Remove or Handle between the lookup and that read yields a response no single instant produces (405 or a preflight answered with the method list of a later state, an empty Allow after Remove)"))
		if path != nil {
			o.Path = c.P.PathString(path)
		}
	})
	if n == 0 {
		c.R.Add(rule, c.fk(serve), "lookup/exists", c.P.Pos(serve.Pos()), false, "serveContext no longer looks the handler up with Tree.Handler")
	}
}

// ruleEntryConditionBelongsToTheGroup — C13.R12 / C07.R11: a Group serves with the first router whose matcher — the one
// given to *this group's* Add/New for that router — accepts. The pair (matcher, router) is state of the group. When
// the matcher is kept in the Router object (a field written by Group.Add), adding the same router to a second group
// overwrites the entry condition the first group dispatches with. Obligation: no function of Group writes a field of
// a Router that Group.ServeHTTP reads.
func ruleEntryConditionBelongsToTheGroup(c *Ctx, rule string) {
	c.R.Rule(c.R.Property+"."+rule, 1, "the entry condition of a router in a group is state of that group, not of the router")
	routerT := lookupNamed(c.A.MuxPkg, "Router")
	serve := c.P.MustFunc("mux.(*Group).ServeHTTP")
	reads := map[string]bool{}
	an.AllInstrs(serve, func(in ssa.Instruction) {
		if u, ok := in.(*ssa.UnOp); ok && u.Op == token.MUL {
			if fa, ok := u.X.(*ssa.FieldAddr); ok && isPtrToNamed(fa.X.Type(), routerT) {
				reads[an.FieldName(fa.X.Type(), fa.Field)] = true
			}
		}
	})
	n := 0
	seenStore := map[string]bool{}
	for _, f := range c.libFuncs() {
		if !strings.HasPrefix(an.FuncKey(f), "mux.(*Group).") {
			continue
		}
		an.AllInstrs(f, func(in ssa.Instruction) {
			st, ok := in.(*ssa.Store)
			if !ok {
				return
			}
			fa, ok := st.Addr.(*ssa.FieldAddr)
			if !ok || !isPtrToNamed(fa.X.Type(), routerT) {
				return
			}
			fld := an.FieldName(fa.X.Type(), fa.Field)
			if !reads[fld] {
				return
			}
			if _, fresh := fa.X.(*ssa.Alloc); fresh {
				return
			}
			if seenStore[c.fk(f)+"/"+fld] {
				return // one finding per function and field, however many stores
			}
			seenStore[c.fk(f)+"/"+fld] = true
			n++
			c.R.Add(rule, c.fk(f), "store:Router."+fld+"/read-by-Group.ServeHTTP", c.pos(in), false, "the group keeps what it dispatches with (Router."+fld+") inside the Router object: adding the same router to a second group (or adding it again with another matcher) rewrites the condition under which the first group enters it, although nothing was called on the first group")
		})
	}
	if n == 0 {
		c.R.Add(rule, "mux.(*Group)", "dispatch-state/kept-in-the-group", "-", true, "no Group method writes a Router field that Group.ServeHTTP reads")
	}
}

// ruleRootMappedPathsAreNotPatterns — C03.R15 / C04.R14: the request paths Tree.Handler answers with the root node
// ("*", and the empty path) never reach the route search, so a route registered under such a pattern is listed by
// Routes() and counted by OPTIONS * but can never be served. Tree.Add therefore refuses these patterns: somewhere
// on the way from Tree.Add to the node construction the pattern is compared with each of those constants.
func ruleRootMappedPathsAreNotPatterns(c *Ctx, rule string) {
	c.R.Rule(c.R.Property+"."+rule, 1, "a pattern that is a request path the tree answers with the root node is refused")
	var consts []string
	an.AllInstrs(c.A.TreeHandler, func(in ssa.Instruction) {
		bo, ok := in.(*ssa.BinOp)
		if !ok || bo.Op != token.EQL {
			return
		}
		if k, isS := strConst(bo.Y); isS && k != "" && strings.HasSuffix(an.AP(bo.X), ".Path") {
			consts = append(consts, k)
		}
	})
	sort.Strings(consts)
	reach := an.NewGraph(c.P).Reach([]*ssa.Function{c.A.TreeAdd}, func(_ *ssa.Function, e an.Edge) bool { return e.Kind == "static" })
	for _, k := range consts {
		found := false
		for f := range reach {
			an.AllInstrs(f, func(in ssa.Instruction) {
				if bo, ok := in.(*ssa.BinOp); ok && (bo.Op == token.EQL || bo.Op == token.NEQ) {
					for _, pair := range [][2]ssa.Value{{bo.X, bo.Y}, {bo.Y, bo.X}} {
						if s, isS := strConst(pair[1]); isS && s == k && isStringType(pair[0].Type()) {
							found = true
						}
					}
				}
			})
		}
		c.R.Add(rule, c.fk(c.A.TreeAdd), "pattern="+strconv.Quote(k)+"/refused", c.P.Pos(c.A.TreeAdd.Pos()), found, ifelse(found, "the pattern is compared with this constant on the way to registration", "Tree.Handler answers the request path "+strconv.Quote(k)+" with the root node without searching the routes, yet Tree.Add accepts "+strconv.Quote(k)+" as a pattern: the route is listed by Routes(), adds its methods to OPTIONS *, and is never served (its request is answered by the root's OPTIONS / 405)"))
	}
	if len(consts) == 0 {
		c.R.Add(rule, c.fk(c.A.TreeHandler), "root-mapped-paths/none", c.P.Pos(c.A.TreeHandler.Pos()), true, "no request path is answered with the root node without a search")
	}
}

// ruleSegmentsAreBuiltFromParsedPieces — C01.R18 / C05.R14: a segment object describes exactly one piece of a parsed
// pattern: literal text, or one parameter followed by its literal suffix. Segment.Match relies on it — for a
// parameter segment it never looks at text in front of the `{`. The segment constructor is handed pieces the
// splitter cut out of a pattern and parts of an existing segment's own text (Segment.Split); it is never handed text
// *assembled* from parts (two nodes' texts concatenated to merge them, Join, Sprintf): that can put literal text in
// front of a parameter, and the merged node matches every path, whatever its head says.
func ruleSegmentsAreBuiltFromParsedPieces(c *Ctx, rule string) {
	c.R.Rule(c.R.Property+"."+rule, 2, "the segment constructor only receives pieces cut by the splitter or parts of an existing segment's text")
	ctor := c.P.MustFunc("syntax.(*Interceptors).NewSegment")
	// assembled: the text is put together from parts (concatenation, Join, Sprintf, a builder) — through phis and
	// through the parameters of forwarding helpers
	var assembled func(v ssa.Value, depth int) bool
	assembled = func(v ssa.Value, depth int) bool {
		if depth > 3 {
			return false
		}
		switch x := v.(type) {
		case *ssa.BinOp:
			return x.Op == token.ADD
		case *ssa.Call:
			switch n := an.CalleeName(&x.Call); {
			case n == "strings.Join", strings.HasPrefix(n, "fmt.Sprint"), n == "strings.(*Builder).String", n == "strings.Repeat", n == "strings.Replace", n == "strings.ReplaceAll":
				return true
			}
		case *ssa.Phi:
			for _, e := range x.Edges {
				if assembled(e, depth+1) {
					return true
				}
			}
		case *ssa.Parameter:
			for _, a := range argsOfParam(x) {
				if assembled(a, depth+1) {
					return true
				}
			}
		}
		return false
	}
	okArg := func(v ssa.Value, _ int) bool { return !assembled(v, 0) }
	n := 0
	for _, f := range c.libFuncs() {
		an.AllInstrs(f, func(in ssa.Instruction) {
			call, ok := calleeIs(in, ctor)
			if !ok || len(call.Args) < 2 {
				return
			}
			n++
			good := okArg(call.Args[1], 0)
			c.R.Add(rule, c.fk(f), "call:NewSegment/text="+c.O.Of(call.Args[1]).String(), c.pos(in), good, ifelse(good, "not assembled from parts", "a segment is built from "+c.O.Of(call.Args[1]).String()+", text assembled from parts instead of a piece the splitter cut out of a pattern or a part of one segment's text: literal text that ends up in front of a parameter is never compared with the request (the parameter's matcher starts at the `{`), so the node matches paths whose head differs"))
		})
	}
	_ = n
}

// ruleResponseHeadersAreNotWiped — C12.R13 / C11.R13: what the CORS procedure wrote stays on the response. The grant
// is written into the response header map before the handler runs; library code that empties that map afterwards
// (a recovery path that "starts from a clean writer") sends an allowed request's answer — the 500 of a panicking
// handler — without Access-Control-Allow-Origin and without Vary. No library function removes entries of an
// http.Header wholesale: no `clear(h)`, no `delete(h, k)` / `h.Del(k)` whose key is not a constant.
func ruleResponseHeadersAreNotWiped(c *Ctx, rule string) {
	c.R.Rule(c.R.Property+"."+rule, 0, "no library code empties a response header map")
	isHeader := func(t types.Type) bool {
		n, ok := types.Unalias(t).(*types.Named)
		return ok && n.Obj().Pkg() != nil && n.Obj().Pkg().Path() == "net/http" && n.Obj().Name() == "Header"
	}
	for _, f := range c.libFuncs() {
		an.AllInstrs(f, func(in ssa.Instruction) {
			call := an.CallOf(in)
			if call == nil {
				return
			}
			what := ""
			if b, isB := call.Value.(*ssa.Builtin); isB && len(call.Args) >= 1 {
				arg := call.Args[0]
				if ct, isCT := arg.(*ssa.ChangeType); isCT {
					arg = ct.X
				}
				switch {
				case b.Name() == "clear" && (isHeader(arg.Type()) || isHeader(call.Args[0].Type())):
					what = "clear(header map)"
				case b.Name() == "delete" && len(call.Args) == 2 && (isHeader(arg.Type()) || isHeader(call.Args[0].Type())):
					if _, isK := call.Args[1].(*ssa.Const); !isK {
						what = "delete(header map, " + c.O.Of(call.Args[1]).String() + ")"
					}
				}
			}
			if an.CalleeName(call) == "net/http.Header.Del" && len(call.Args) == 2 {
				if _, isK := call.Args[1].(*ssa.Const); !isK {
					what = "Header.Del(" + c.O.Of(call.Args[1]).String() + ")"
				}
			}
			if what == "" {
				return
			}
			c.R.Add(rule, c.fk(f), "wipes:"+what, c.pos(in), false, "library code removes response headers by a key it does not name ("+what+"): the CORS grant written before the handler ran (Access-Control-Allow-Origin, -Credentials, Expose-Headers, Vary) is removed with them — the answer of an allowed request leaves without it")
		})
	}
}

// ruleSummaryReadOnlyOfLiveNodes — C04.R15 / C03.R16: the method summary of a node is kept current only while the node
// has handlers: when Remove drops the whole handler map the summary is left as it was (the node is neither matched
// nor listed), and with a TRACE handler configured it is non-zero even for an emptied node. Code that walks the tree
// (a node method that calls itself on the children) therefore reads a node's summary only behind "this node has
// handlers"; a walk that trusts the summary of every node counts the methods of routes that were removed — OPTIONS *
// keeps naming a method no live route has.
func ruleSummaryReadOnlyOfLiveNodes(c *Ctx, rule string) {
	a := c.A
	c.R.Rule(c.R.Property+"."+rule, 0, "a walk over the tree reads a node's method summary only when the node has handlers")
	for _, f := range c.libFuncs() {
		if f.Signature.Recv() == nil || !isPtrToNamed(f.Signature.Recv().Type(), a.NodeT) || !strings.HasPrefix(an.FuncKey(f), a.TreePkg.Name()+".") {
			continue
		}
		walker := false
		an.AllInstrs(f, func(in ssa.Instruction) {
			if call := an.CallOf(in); call != nil {
				if g := an.StaticCallee(call); g != nil && an.Origin(g) == an.Origin(f) && len(call.Args) > 0 && strings.HasPrefix(an.AP(call.Args[0]), "recv."+a.FChildren) {
					walker = true
				}
			}
		})
		if !walker {
			continue
		}
		an.AllInstrs(f, func(in ssa.Instruction) {
			ld, ok := in.(*ssa.UnOp)
			if !ok || ld.Op != token.MUL {
				return
			}
			base, isSum := fieldLoadOf(ld, a.NodeT, a.FSummary)
			if !isSum || base != "recv" {
				return
			}
			dom := an.DominatedByEdge(in, func(b *ssa.BasicBlock, succ int) bool {
				return lenPositiveTermEdge(c, b, succ, "recv."+a.FHandlers)
			})
			c.R.Add(rule, c.fk(f), "walk/reads:"+a.FSummary+"/behind:has-handlers", c.pos(in), dom, ifelse(dom, "the summary is read for a node with handlers", "a walk over the tree reads the method summary of every node, also of nodes without handlers: the summary of an emptied node is stale (Remove does not rebuild it, and it carries the TRACE bit when TRACE is configured), so methods of removed routes are still counted — OPTIONS * and Routes() name what no live route serves"))
		})
	}
}

// ruleChainWalkEndsAtTheRoot — C10.R14: strict URL building writes the texts of the nodes from the root down to the
// node found. The chain is what the parent links say it is: the walk `curr = curr.parent` stops because it reached
// the root (a nil parent, or the root node itself) — not because a stored count ran out. A count kept in the nodes
// (a depth) is a second copy of the tree's shape that a split of an ancestor leaves stale below the split node: the
// built URL silently loses its head.
func ruleChainWalkEndsAtTheRoot(c *Ctx, rule string) {
	a := c.A
	c.R.Rule(c.R.Property+"."+rule, 0, "the walk from the node found up to the root ends when it reaches the root")
	f := a.TreeURL
	for _, g := range builderCluster(c, f) {
		if !strings.HasPrefix(an.FuncKey(g), a.TreePkg.Name()+".") {
			continue
		}
		an.AllInstrs(g, func(in ssa.Instruction) {
			phi, ok := in.(*ssa.Phi)
			if !ok || !isPtrToNamed(phi.Type(), a.NodeT) {
				return
			}
			// curr = φ(start, curr.parent)
			up := false
			for _, e := range phi.Edges {
				if ld, isLd := e.(*ssa.UnOp); isLd && ld.Op == token.MUL {
					if fa, isFA := ld.X.(*ssa.FieldAddr); isFA && fa.X == ssa.Value(phi) && an.FieldName(fa.X.Type(), fa.Field) == a.FParent {
						up = true
					}
				}
			}
			if !up {
				return
			}
			// the loop's exit test looks at the walker (curr, or curr.parent) — compared with nil or with the root
			hdr := phi.Block()
			var cond ssa.Value
			if len(hdr.Instrs) > 0 {
				if br, isIf := hdr.Instrs[len(hdr.Instrs)-1].(*ssa.If); isIf {
					cond = br.Cond
				}
			}
			good := false
			if cond != nil {
				var mentions func(v ssa.Value, depth int) bool
				mentions = func(v ssa.Value, depth int) bool {
					if depth > 4 {
						return false
					}
					if v == ssa.Value(phi) {
						return true
					}
					switch x := v.(type) {
					case *ssa.BinOp:
						return mentions(x.X, depth+1) || mentions(x.Y, depth+1)
					case *ssa.UnOp:
						return mentions(x.X, depth+1)
					case *ssa.FieldAddr:
						return mentions(x.X, depth+1)
					case *ssa.Phi:
						for _, e := range x.Edges {
							if e != v && mentions(e, depth+1) {
								return true
							}
						}
					}
					return false
				}
				good = mentions(cond, 0)
			}
			c.R.Add(rule, c.fk(g), "walk:"+a.FParent+"-chain/ends-at-the-root", c.pos(in), good, ifelse(good, "the walk up the parent links stops on a test of the node reached", "the walk up the parent links is bounded by something other than the node it has reached (a stored depth or count): that is a second copy of the tree's shape, stale for the nodes below a split — the built URL loses the text of the nodes the count does not cover, without an error"))
		})
	}
}

// ruleAdjacencyIsDecidedOnTheText — C10.R15 / C05.R15: "two parameters may not be adjacent" is a property of the
// pattern's text — a piece that ends with '}' followed by a piece that begins with '{'. The parser's flag that
// carries "the previous piece ended with '}'" round its loop is computed from the piece (its last byte), not from a
// field of the segment built from it: the segment kinds record "ends with '}'" (Endpoint) for named and interceptor
// parameters only, so a flag taken from there lets `{id:\d+}{page}` through — the pattern is malformed, yet URL
// building and registration accept it.
func ruleAdjacencyIsDecidedOnTheText(c *Ctx, rule string) {
	c.R.Rule(c.R.Property+"."+rule, 0, "adjacent parameters are detected on the text of the pieces")
	f := c.P.MustFunc("syntax.(*Interceptors).Split")
	for _, g := range builderCluster(c, f) {
		if !strings.HasPrefix(an.FuncKey(g), "syntax.") {
			continue
		}
		an.AllInstrs(g, func(in ssa.Instruction) {
			phi, ok := in.(*ssa.Phi)
			if !ok || !isBoolType(phi.Type()) || !strings.Contains(phi.Block().Comment, "loop") {
				return
			}
			// the flag is the one tested together with "this piece begins with '{'"
			tested := false
			for _, ref := range *phi.Referrers() {
				br, isIf := ref.(*ssa.If)
				if !isIf {
					continue
				}
				for _, succ := range br.Block().Succs {
					for _, x := range succ.Instrs {
						if bo, isBin := x.(*ssa.BinOp); isBin && bo.Op == token.EQL {
							if k, isK := bo.Y.(*ssa.Const); isK && an.ConstKey(k) == "123" {
								tested = true
							}
						}
					}
				}
			}
			if !tested {
				return
			}
			for _, e := range phi.Edges {
				if _, isK := e.(*ssa.Const); isK {
					continue
				}
				t := c.O.Of(e).String()
				fromSegment := strings.Contains(t, ".Endpoint") || strings.Contains(t, ".Type") || strings.Contains(t, ".Suffix")
				fromText := strings.Contains(t, "125")
				good := fromText && !fromSegment
				c.R.Add(rule, c.fk(g), "loop-flag:previous-piece-ends-with-brace/from-the-text", c.pos(in), good, ifelse(good, "the flag is the last byte of the piece compared with '}'", "the flag that says the previous piece ended with '}' is "+t+", not the last byte of the piece: a segment records that for named and interceptor parameters only, so a regexp parameter directly followed by another parameter (`{id:\\d+}{page}`) is not reported as adjacent and the malformed pattern is accepted"))
			}
		})
	}
}

// ruleCallersSlicesAreNotRetained — C07.R12 (census, also C13.R14, C12.R15, C11.R15): an exported constructor or
// method that receives a slice (a variadic list spread with `xs...` is the caller's slice) and builds a long-lived
// object from it — a matcher closure, a CORS configuration — does not keep that slice: a caller that reuses or edits
// its slice afterwards would change what a finished object does, and two objects built from one slice would be
// coupled. Kept means: stored into a struct field, or captured by a function literal, as it is (not cloned, not
// copied element by element) — directly or through one module helper the slice is handed to.
func ruleCallersSlicesAreNotRetained(c *Ctx, rule string, only string) {
	c.R.Rule(c.R.Property+"."+rule, 0, "objects built from a caller's slice keep a copy, not the slice")
	var keeps func(f *ssa.Function, p *ssa.Parameter, depth int) string
	keeps = func(f *ssa.Function, p *ssa.Parameter, depth int) string {
		where := ""
		an.AllInstrs(f, func(in ssa.Instruction) {
			switch x := in.(type) {
			case *ssa.Store:
				if _, isFA := x.Addr.(*ssa.FieldAddr); isFA && x.Val == ssa.Value(p) {
					where = "stored in a field at " + c.pos(in)
				}
				// a captured parameter lives in a cell: the cell is what the function literal binds
				if cell, isCell := x.Addr.(*ssa.Alloc); isCell && x.Val == ssa.Value(p) {
					for _, ref := range *cell.Referrers() {
						mc, isMC := ref.(*ssa.MakeClosure)
						if !isMC {
							continue
						}
						// unless the cell is overwritten (m = slices.Clone(m)) on every path to the literal
						reaches := (&an.Query{
							Target: func(t ssa.Instruction) bool { return t == ssa.Instruction(mc) },
							Block: func(t ssa.Instruction) bool {
								s2, isSt := t.(*ssa.Store)
								return isSt && s2.Addr == ssa.Value(cell) && s2.Val != ssa.Value(p)
							},
						}).Search(an.After(in))
						if reaches != nil {
							where = "captured by the function literal at " + c.pos(mc)
						}
					}
				}
				if ia, isIA := x.Addr.(*ssa.IndexAddr); isIA && ia.X == ssa.Value(p) {
					where = "written into at " + c.pos(in)
				}
			case *ssa.MakeClosure:
				for _, b := range x.Bindings {
					if b == ssa.Value(p) {
						where = "captured by the function literal at " + c.pos(in)
					}
				}
			case *ssa.Call:
				if depth >= 1 {
					return
				}
				g := an.StaticCallee(&x.Call)
				if g == nil || !an.InModule(g) || len(g.Blocks) == 0 {
					return
				}
				for i, a := range an.CallArgs(&x.Call) {
					if a == ssa.Value(p) && i < len(g.Params) {
						if w := keeps(g, g.Params[i], depth+1); w != "" {
							where = w + " (through " + an.FuncKey(g) + ")"
						}
					}
				}
			}
		})
		return where
	}
	for _, f := range c.libFuncs() {
		k := an.FuncKey(f)
		if !strings.HasPrefix(k, "mux.") || f.Parent() != nil || f.Object() == nil || !f.Object().Exported() {
			continue
		}
		if only != "" && !strings.Contains(k, only) {
			continue
		}
		for _, p := range f.Params {
			sl, ok := p.Type().Underlying().(*types.Slice)
			if !ok {
				continue
			}
			if _, isSig := sl.Elem().Underlying().(*types.Signature); isSig {
				continue // option / middleware functions: consumed, and immutable values anyway
			}
			if n, isNamed := types.Unalias(sl.Elem()).(*types.Named); isNamed && (n.Obj().Name() == "Option" || strings.HasPrefix(n.Obj().Name(), "Middleware")) {
				continue
			}
			w := keeps(f, p, 0)
			c.R.Add(rule, k, "param:"+p.Name()+"/not-retained", c.P.Pos(f.Pos()), w == "", ifelse(w == "", "the slice is copied or only read during the call", "the caller's slice "+p.Name()+" is "+w+": the object built here keeps using the caller's memory — editing or reusing the slice afterwards changes what the finished object accepts, and objects built from one slice are coupled"))
		}
	}
}

// ruleRegexpSplitOnRuneBoundary — C17.R11 / C05.R16 / C02.R17: the literal suffix of a regexp segment is compiled into
// its expression, and an expression has to be valid UTF-8. The common prefix of two patterns is computed byte by
// byte, so two routes whose text differs inside a multi-byte character (ärzte / übersicht) have a common prefix that
// ends in the middle of that character; splitting a regexp segment there makes the second Handle fail with "invalid
// UTF-8" after the existing node was already taken out of the tree. The code that decides where segments are split
// (Segment.Similarity and what it calls) therefore looks at character boundaries: it consults unicode/utf8.
func ruleRegexpSplitOnRuneBoundary(c *Ctx, rule string) {
	c.R.Rule(c.R.Property+"."+rule, 1, "the split point of a regexp segment is moved to a character boundary")
	sim := c.P.Func("syntax.(*Segment).Similarity")
	if sim == nil {
		c.R.Add(rule, "pkg:syntax", "split-point/function", "-", true, "no Similarity function (the split point is computed elsewhere)")
		return
	}
	uses := false
	for _, g := range builderCluster(c, sim) {
		if !strings.HasPrefix(an.FuncKey(g), "syntax.") {
			continue
		}
		an.AllInstrs(g, func(in ssa.Instruction) {
			if call := an.CallOf(in); call != nil && strings.HasPrefix(an.CalleeName(call), "unicode/utf8.") {
				uses = true
			}
		})
	}
	c.R.Add(rule, c.fk(sim), "split-point/character-boundary-for-regexp-segments", c.P.Pos(sim.Pos()), uses, ifelse(uses, "the split position is checked against character boundaries (unicode/utf8)", "the split position is the byte-wise common prefix and nothing looks at character boundaries: two regexp routes whose literal text differs inside a multi-byte character are split in the middle of it, the suffix no longer compiles (\"invalid UTF-8\"), the registration fails and the route registered first is lost"))
}
