package rules

import (
	"fmt"
	"go/types"
	"strings"

	"golang.org/x/tools/go/ssa"

	"muxlint/internal/an"
)

// handlerInstall describes an install into a handler map.
type handlerInstall struct {
	f    *ssa.Function
	in   *ssa.MapUpdate
	x    string // object identity: AP of the node, or "make:<name>" for a literal map
	node string // AP of the node the map belongs to (after canonicalisation), "" if unknown
}

// handlerInstalls lists all installs into node handler maps (range-updates of existing keys exempt).
func (c *Ctx) handlerInstalls() []*handlerInstall {
	a := c.A
	var out []*handlerInstall
	for _, f := range c.libFuncs() {
		an.AllInstrs(f, func(in ssa.Instruction) {
			mu, ok := in.(*ssa.MapUpdate)
			if !ok {
				return
			}
			if base, ok := fieldLoadOf(mu.Map, a.NodeT, a.FHandlers); ok {
				if rangeKeyOf(mu.Key, base+"."+a.FHandlers) {
					return
				}
				out = append(out, &handlerInstall{f: f, in: mu, x: base, node: canonAlloc(f, base)})
				return
			}
			if mk, ok := mu.Map.(*ssa.MakeMap); ok {
				// literal map later stored into X.handlers
				for _, r := range *mk.Referrers() {
					if base, field, val, ok := fieldStore(r, a.NodeT); ok && field == a.FHandlers && val == ssa.Value(mk) {
						out = append(out, &handlerInstall{f: f, in: mu, x: "make:" + mk.Name(), node: canonAlloc(f, base)})
					}
				}
			}
		})
	}
	return out
}

func (c *Ctx) sameHandlerMap(f *ssa.Function, m ssa.Value, x string) bool {
	a := c.A
	if strings.HasPrefix(x, "make:") {
		mk, ok := m.(*ssa.MakeMap)
		return ok && "make:"+mk.Name() == x
	}
	base, ok := fieldLoadOf(m, a.NodeT, a.FHandlers)
	return ok && base == x
}

// ruleAutoEntries is C05.R1(a): a node with a non-empty handler map has the 405
// entry and the OPTIONS entry — every install is accompanied by both.
func ruleAutoEntries(c *Ctx, rule string) {
	a := c.A
	c.R.Rule(c.R.Property+"."+rule, 3, "no nil handler can be selected: every node with handlers has the 405 entry (and the automatic OPTIONS entry)")
	naKey := a.NotAllowedKey
	required := []struct{ name, key string }{{"405-entry", naKey}, {"OPTIONS-entry", `"OPTIONS"`}}
	for _, inst := range c.handlerInstalls() {
		keyConst := ""
		if k, ok := inst.in.Key.(*ssa.Const); ok {
			keyConst = an.ConstKey(k)
		}
		for _, req := range required {
			if keyConst == req.key {
				continue
			}
			isB := func(in ssa.Instruction) bool {
				mu, ok := in.(*ssa.MapUpdate)
				if !ok || !c.sameHandlerMap(inst.f, mu.Map, inst.x) {
					return false
				}
				k, ok := mu.Key.(*ssa.Const)
				return ok && an.ConstKey(k) == req.key
			}
			foundEdge := func(b *ssa.BasicBlock, succ int) bool {
				return commaOkEdge(b, succ, func(m, k ssa.Value) bool {
					kc, ok := k.(*ssa.Const)
					return ok && an.ConstKey(kc) == req.key && c.sameHandlerMap(inst.f, m, inst.x)
				})
			}
			pre := (&an.Query{Target: func(in ssa.Instruction) bool { return in == ssa.Instruction(inst.in) }, Block: isB, BlockEdge: foundEdge}).Search(an.Entry(inst.f))
			var post []an.Point
			if pre != nil {
				post = (&an.Query{Target: func(in ssa.Instruction) bool {
					r, ok := in.(*ssa.Return)
					return ok && an.IsSuccessReturn(r)
				}, Block: isB, BlockEdge: foundEdge}).Search(an.After(inst.in))
			}
			construct := fmt.Sprintf("install:%s/on:%s/requires:%s", keyDesc(inst.in.Key), inst.x, req.name)
			if pre == nil || post == nil {
				c.R.Add(rule, c.fk(inst.f), construct, c.pos(inst.in), true, "every successful path through the install also installs (or finds present) the "+req.name)
			} else {
				o := c.R.Add(rule, c.fk(inst.f), construct, c.pos(inst.in), false, "a handler is installed on "+inst.x+" and a successful return is reachable without the "+req.name+": a request whose method is not registered selects a missing (nil) handler on that node")
				o.Path = c.P.PathString(pre) + " … " + c.P.PathString(post)
			}
		}
	}
}

func keyDesc(k ssa.Value) string {
	if kc, ok := k.(*ssa.Const); ok {
		return "const" + an.ConstKey(kc)
	}
	return an.AP(k)
}

// ruleReservedKeysNotDeletable is C05.R1(b) / C08.R3: a caller-supplied key
// reaches delete(X.handlers, k) only when it is none of the reserved keys.
func ruleReservedKeysNotDeletable(c *Ctx, rule string, reserved []string, why string) {
	a := c.A
	c.R.Rule(c.R.Property+"."+rule, 1, why)
	for _, f := range c.libFuncs() {
		an.AllInstrs(f, func(in ssa.Instruction) {
			call, ok := builtinCall(in, "delete")
			if !ok {
				return
			}
			base, ok := fieldLoadOf(call.Args[0], a.NodeT, a.FHandlers)
			if !ok {
				return
			}
			k := call.Args[1]
			if _, isConst := k.(*ssa.Const); isConst {
				return
			}
			for _, res := range reserved {
				path, reach := c.elemReaches(k, in, assumeEq(res))
				construct := fmt.Sprintf("delete:%s.%s[%s]/key=%q", base, a.FHandlers, an.AP(k), res)
				if !reach {
					c.R.Add(rule, c.fk(f), construct, c.pos(in), true, fmt.Sprintf("key %q cannot reach the delete", res))
				} else {
					o := c.R.Add(rule, c.fk(f), construct, c.pos(in), false, fmt.Sprintf("a caller-supplied key equal to %q reaches delete(%s.%s, key): the automatic entry can be removed by name while other methods stay registered", res, base, a.FHandlers))
					o.Path = path
				}
			}
		})
	}
}

// ruleAutoEntriesDeletedTogether is C05.R1(c): the constant-key deletes of the
// automatic entries happen only when both are present and nothing else is left.
func ruleAutoEntriesDeletedTogether(c *Ctx, rule string) {
	a := c.A
	c.R.Rule(c.R.Property+"."+rule, 2, "OPTIONS and the 405 entry are removed only together and only when no other method remains")
	autoKeys := []string{a.NotAllowedKey, `"OPTIONS"`}
	for _, f := range c.libFuncs() {
		an.AllInstrs(f, func(in ssa.Instruction) {
			call, ok := builtinCall(in, "delete")
			if !ok {
				return
			}
			base, ok := fieldLoadOf(call.Args[0], a.NodeT, a.FHandlers)
			if !ok {
				return
			}
			kc, isConst := call.Args[1].(*ssa.Const)
			if !isConst {
				return
			}
			key := an.ConstKey(kc)
			if key != autoKeys[0] && key != autoKeys[1] {
				return
			}
			okAll := true
			var missing []string
			for _, ak := range autoKeys {
				ak := ak
				dom := an.DominatedByEdge(in, func(b *ssa.BasicBlock, succ int) bool {
					return commaOkEdge(b, succ, func(m, k ssa.Value) bool {
						kk, ok := k.(*ssa.Const)
						mb, isH := fieldLoadOf(m, a.NodeT, a.FHandlers)
						return ok && isH && mb == base && an.ConstKey(kk) == ak
					})
				})
				if !dom {
					okAll = false
					missing = append(missing, "presence test of "+ak)
				}
			}
			domCount := an.DominatedByEdge(in, func(b *ssa.BasicBlock, succ int) bool {
				cond, onTrue := an.EdgeCond(b, succ)
				if cond == nil {
					return false
				}
				x, k, eq, ok := an.CondAtom(cond)
				if !ok || eq != onTrue || an.ConstKey(k) != fmt.Sprint(len(autoKeys)) {
					return false
				}
				t := c.O.Of(x).String()
				return t == "call<builtin:len>("+base+"."+a.FHandlers+")"
			})
			if !domCount {
				okAll = false
				missing = append(missing, fmt.Sprintf("len(%s.%s) == %d", base, a.FHandlers, len(autoKeys)))
			}
			construct := fmt.Sprintf("delete:%s.%s[const%s]", base, a.FHandlers, key)
			c.R.Add(rule, c.fk(f), construct, c.pos(in), okAll, ifelse(okAll, "dominated by presence of both automatic entries and handler count == 2", "automatic entry deleted without "+strings.Join(missing, ", ")+": a node can be left with methods but no 405/OPTIONS entry"))
		})
	}
}

// ruleBuilderBinding is C04.R2: the automatic handlers are built for, and
// stay with, the node that owns them.
func ruleBuilderBinding(c *Ctx, rule string) {
	a := c.A
	c.R.Rule(c.R.Property+"."+rule, 3, "the OPTIONS/405 handlers built by builder(node) capture that node: they must be stored on the same node object, and a handler map must never move to another node object")
	// (a) every handler built by a node-handler builder is installed on the node it was built for
	placed := map[*ssa.Call]bool{}
	for _, inst := range c.handlerInstalls() {
		hv := inst.in.Value
		if wargs, ok := c.resolveWrap(hv, 0); ok {
			hv = wargs[0].V
		}
		bc, ok := isBuilderCall(hv)
		if !ok || len(bc.Call.Args) != 1 {
			continue
		}
		placed[bc] = true
		n := canonAlloc(bc.Parent(), an.AP(bc.Call.Args[0]))
		good := n == inst.node && bc.Parent() == inst.f
		c.R.Add(rule, c.fk(inst.f), "builder-result/installed-on:"+inst.node+"/built-for:"+n, c.pos(inst.in), good, ifelse(good, "the automatic handler is stored in the handler map of the node it was built for", "an automatic handler built for "+n+" is stored on "+inst.node+": its Allow header reads another node's summary"))
	}
	for _, f := range c.libFuncs() {
		an.AllInstrs(f, func(in ssa.Instruction) {
			if v, ok := in.(ssa.Value); ok {
				if bc, ok := isBuilderCall(v); ok && !placed[bc] {
					c.R.Add(rule, c.fk(f), "builder-result/installed", c.pos(in), false, "a node-handler builder is called but its result is not installed in a handler map")
				}
			}
		})
	}
	for _, f := range c.libFuncs() {
		an.AllInstrs(f, func(in ssa.Instruction) {
			// (b) handler map moved between node objects
			if base, field, val, ok := fieldStore(in, a.NodeT); ok && field == a.FHandlers {
				if src, isLoad := fieldLoadOf(val, a.NodeT, a.FHandlers); isLoad && src != base {
					construct := "move:" + src + "." + a.FHandlers + "->" + base
					c.R.Add(rule, c.fk(f), construct, c.pos(in), false, "the handler map (with its OPTIONS/405 closures bound to "+src+") is moved to another node object "+base+": later registrations rebuild the summary of the new object while the automatic handlers keep reading the old one — Allow goes stale")
				}
			}
		})
	}
}

func isTreeField(c *Ctx, v ssa.Value) (string, bool) {
	for {
		switch x := v.(type) {
		case *ssa.UnOp:
			v = x.X
			continue
		case *ssa.FieldAddr:
			if o := ownerOf(x); o != nil && o == c.A.TreeT.Origin() {
				return an.FieldName(x.X.Type(), x.Field), true
			}
			return "", false
		}
		return "", false
	}
}

// handlerDestinations follows a handler value (through ApplyMiddleware) to the
// handler maps it is installed in and returns the canonical node APs.
func (c *Ctx) handlerDestinations(f *ssa.Function, v ssa.Value) []string {
	a := c.A
	var out []string
	seen := map[ssa.Value]bool{}
	var walk func(v ssa.Value)
	walk = func(v ssa.Value) {
		if seen[v] {
			return
		}
		seen[v] = true
		for _, r := range *v.Referrers() {
			switch x := r.(type) {
			case *ssa.MapUpdate:
				if x.Value != v {
					continue
				}
				if base, ok := fieldLoadOf(x.Map, a.NodeT, a.FHandlers); ok {
					out = append(out, canonAlloc(f, base))
				} else if mk, ok := x.Map.(*ssa.MakeMap); ok {
					for _, rr := range *mk.Referrers() {
						if base, field, val, ok := fieldStore(rr, a.NodeT); ok && field == a.FHandlers && val == ssa.Value(mk) {
							out = append(out, canonAlloc(f, base))
						}
					}
				}
			case *ssa.Call:
				if an.CalleeName(&x.Call) == "tree.ApplyMiddleware" && len(x.Call.Args) > 0 && x.Call.Args[0] == v {
					walk(x)
				}
			case *ssa.MakeInterface:
				walk(x)
			case *ssa.ChangeType:
				walk(x)
			}
		}
	}
	walk(v)
	return out
}

// ruleSummaryByBuilder is C04.R3: every summary is computed by a summary
// builder (which includes the TRACE clause and renders the memo entry), or is
// a coherent copy, or is followed by a builder call.
func ruleSummaryByBuilder(c *Ctx, rule string) {
	a := c.A
	c.R.Rule(c.R.Property+"."+rule, 3, "every method summary includes TRACE when configured and has its rendered Allow entry: it is computed by a summary builder on every path")
	// builders: TRACE clause + memo
	for _, b := range []*ssa.Function{a.NodeSummaryBuilder, a.TreeSummaryBuilder} {
		if b == nil {
			c.R.Add(rule, "pkg:tree", "builder:node-summary/exists", "-", false, "no node method computes the method summary from the handler map: that every summary carries TRACE when configured and has its rendered entry cannot be established")
			continue
		}
		// the tail of a builder — TRACE clause, store, memo entry — may sit in a setter both builders share
		// (n.setMethodIndex(index)): then the builder has to reach the setter on every path, and the clauses are
		// looked for in the setter
		builder := b
		if setter := summarySetterOf(a, b); setter != nil {
			isRet0 := func(in ssa.Instruction) bool { _, ok := in.(*ssa.Return); return ok }
			reaches := (&an.Query{Target: isRet0, Block: func(in ssa.Instruction) bool { _, ok := calleeIs(in, setter); return ok }}).Search(an.Entry(b)) == nil
			if reaches {
				b = setter
			}
		}
		var traceStores []ssa.Instruction
		an.AllInstrs(b, func(in ssa.Instruction) {
			if _, field, val, ok := fieldStore(in, a.NodeT); ok && field == a.FSummary {
				t := c.O.Of(val).String()
				if strings.Contains(t, `lookup(global:tree.`+a.MethodTable.Name()+`, "TRACE")`) {
					traceStores = append(traceStores, in)
				}
			}
		})
		assumeTrace := func(cond ssa.Value) (bool, bool) {
			v, neg := stripNot(cond)
			if strings.HasSuffix(an.AP(v), "."+a.FHasTrace) {
				return !neg, true
			}
			return false, false
		}
		isRet := func(in ssa.Instruction) bool { _, ok := in.(*ssa.Return); return ok }
		okTrace := len(traceStores) > 0 && (&an.Query{
			Target: isRet, Assume: assumeTrace,
			Block: func(in ssa.Instruction) bool {
				for _, s := range traceStores {
					if s == in {
						return true
					}
				}
				return false
			}}).Search(an.Entry(b)) == nil
		c.R.Add(rule, c.fk(builder), "builder:trace-clause", c.P.Pos(builder.Pos()), okTrace, ifelse(okTrace, "with hasTrace every path adds the TRACE bit", "summary builder can return without the TRACE bit although a TRACE handler is configured: TRACE is missing from Allow"))
		okMemo := (&an.Query{Target: isRet, Block: func(in ssa.Instruction) bool { _, ok := calleeIs(in, a.MemoBuilder); return ok }}).Search(an.Entry(b)) == nil
		c.R.Add(rule, c.fk(builder), "builder:renders-memo", c.P.Pos(builder.Pos()), okMemo, ifelse(okMemo, "every path renders the memo entry of the new summary", "summary builder can return without rendering the memo entry: Allow/Methods() of that summary are empty"))
	}
	// all other stores to a summary field
	spec := &PairSpec{
		Rule: rule,
		IsA: func(f *ssa.Function, in ssa.Instruction) (string, string, bool) {
			if f == a.NodeSummaryBuilder || f == a.TreeSummaryBuilder {
				return "", "", false
			}
			// the setter the builders share: its store is the builders' store; calling it from anywhere else writes a
			// summary outside a builder
			for _, bb := range []*ssa.Function{a.NodeSummaryBuilder, a.TreeSummaryBuilder} {
				if setter := summarySetterOf(a, bb); setter != nil {
					if f == setter {
						return "", "", false
					}
					if call, isCall := calleeIs(in, setter); isCall {
						nodeIdx, _, _ := summarySetterArgs(a, setter)
						return canonAlloc(f, an.AP(call.Args[nodeIdx])), "store:" + a.FSummary, true
					}
				}
			}
			base, field, val, ok := fieldStore(in, a.NodeT)
			if !ok || field != a.FSummary {
				return "", "", false
			}
			// coherent copy: X.summary = Y.summary together with X.handlers = Y.handlers
			if src, isLoad := fieldLoadOf(val, a.NodeT, a.FSummary); isLoad {
				copies := false
				an.AllInstrs(f, func(x ssa.Instruction) {
					if b2, f2, v2, ok := fieldStore(x, a.NodeT); ok && f2 == a.FHandlers && b2 == base {
						if s2, ok := fieldLoadOf(v2, a.NodeT, a.FHandlers); ok && s2 == src {
							copies = true
						}
					}
				})
				if copies {
					return "", "", false
				}
			}
			return canonAlloc(f, base), "store:" + a.FSummary, true
		},
		IsB:         c.summaryRebuild,
		NoConstruct: true,
	}
	sites := c.RunPair(spec)
	c.reportPair(rule, sites, func(s *pairSite) string {
		return "the method summary of " + s.x + " is written outside a summary builder and no builder runs before the successful return: the value lacks the TRACE clause and has no rendered Allow entry (a fresh router answers OPTIONS * with an empty Allow)"
	})
}

// ruleRemoversUpdateTreeSummary is C04.R4.
func ruleRemoversUpdateTreeSummary(c *Ctx, rule string) {
	a := c.A
	c.R.Rule(c.R.Property+"."+rule+"a", 2, "OPTIONS * names the methods registered on live routes: every operation that removes handlers or nodes updates the tree-wide summary")
	c.R.Rule(c.R.Property+"."+rule+"b", 1, "the tree-wide counters are decremented only by keys actually removed")
	nB := 0
	g := an.NewGraph(c.P)
	removing := func(f *ssa.Function) (string, bool) {
		desc := ""
		an.AllInstrs(f, func(in ssa.Instruction) {
			for _, b := range []string{"delete", "clear"} {
				if call, ok := builtinCall(in, b); ok {
					if _, isH := fieldLoadOf(call.Args[0], a.NodeT, a.FHandlers); isH {
						desc = b + " on handler map at " + c.pos(in)
					}
				}
			}
			if _, field, val, ok := fieldStore(in, a.NodeT); ok {
				if field == a.FHandlers && an.IsNilConst(val) {
					desc = "handler map dropped at " + c.pos(in)
				}
				if field == a.FChildren {
					t := c.O.Of(val).String()
					if strings.Contains(t, "slices.Delete") || strings.Contains(t, "call<tree.removeNodes>") || strings.HasPrefix(t, "slice(") {
						desc = "child list shrunk at " + c.pos(in)
					}
				}
			}
		})
		return desc, desc != ""
	}
	n := 0
	for _, f := range c.libFuncs() {
		if !isEntryPoint(f) || f.Signature.Recv() == nil {
			continue
		}
		if rt, ok := f.Signature.Recv().Type().(*types.Pointer); !ok || !isNamed(rt.Elem(), a.TreeT) {
			continue
		}
		reach := g.Reach([]*ssa.Function{f}, nil)
		var rem *ssa.Function
		var remDesc string
		for _, h := range an.SortedFuncs(reach) {
			if d, ok := removing(h); ok {
				rem, remDesc = h, d
				break
			}
		}
		if rem == nil {
			continue
		}
		n++
		_, updates := reach[a.TreeSummaryBuilder]
		construct := "removes-via:" + an.FuncKey(rem) + "/reaches:" + an.FuncKey(a.TreeSummaryBuilder)
		c.R.Add(rule+"a", c.fk(f), construct, c.P.Pos(f.Pos()), updates, ifelse(updates, "reaches the tree-wide updater: "+an.Chain(reach, a.TreeSummaryBuilder), "removes routes ("+remDesc+", via "+an.Chain(reach, rem)+") but never updates the tree-wide method counters: OPTIONS * keeps listing methods of removed routes"))
		if updates {
			// path-sensitive: after every removing effect / call of a removing function, every successful path updates
			removers := map[*ssa.Function]bool{}
			for h := range reach {
				if _, ok := removing(h); ok {
					removers[h] = true
				}
			}
			for changed := true; changed; {
				changed = false
				for h := range reach {
					if removers[h] {
						continue
					}
					an.AllInstrs(h, func(in ssa.Instruction) {
						if call := an.CallOf(in); call != nil {
							if g2 := an.StaticCallee(call); g2 != nil && removers[g2] && !removers[h] {
								removers[h] = true
								changed = true
							}
						}
					})
				}
			}
			updaters := map[*ssa.Function]bool{a.TreeSummaryBuilder: true}
			isUpdate := func(in ssa.Instruction) bool {
				if _, isDefer := in.(*ssa.Defer); isDefer {
					return false
				}
				call := an.CallOf(in)
				if call == nil {
					return false
				}
				g2 := an.StaticCallee(call)
				return g2 != nil && updaters[g2]
			}
			for changed := true; changed; {
				changed = false
				for h := range reach {
					if updaters[h] || len(h.Blocks) == 0 {
						continue
					}
					if (&an.Query{Target: func(t ssa.Instruction) bool { r, ok := t.(*ssa.Return); return ok && an.IsSuccessReturn(r) }, Block: isUpdate}).Search(an.Entry(h)) == nil {
						updaters[h] = true
						changed = true
					}
				}
			}
			an.AllInstrs(f, func(in ssa.Instruction) {
				isRem := false
				if _, ok := removingInstr(c, in); ok {
					isRem = true
				}
				if call := an.CallOf(in); call != nil {
					if g2 := an.StaticCallee(call); g2 != nil && removers[g2] && g2 != f {
						isRem = true
					}
				}
				if !isRem {
					return
				}
				path := (&an.Query{Target: func(t ssa.Instruction) bool { r, ok := t.(*ssa.Return); return ok && an.IsSuccessReturn(r) }, Block: isUpdate}).Search(an.After(in))
				what := "effect"
				if call := an.CallOf(in); call != nil {
					what = "call:" + an.CalleeName(call)
				}
				o := c.R.Add(rule+"a", c.fk(f), "after-removal:"+what+"/every-path-updates", c.pos(in), path == nil, ifelse(path == nil, "every successful path after the removal updates the tree-wide summary", "after routes were removed a successful return is reachable without updating the tree-wide method counters (the update is conditional): OPTIONS * keeps listing methods of removed routes"))
				if path != nil {
					o.Path = c.P.PathString(path)
				}
			})
		}
	}
	if n == 0 {
		an.Fatalf("UNRESOLVED anchor: no removing Tree entry point found")
	}
	// (b) decrement lists
	for _, f := range c.libFuncs() {
		an.AllInstrs(f, func(in ssa.Instruction) {
			call, ok := calleeIs(in, a.TreeSummaryBuilder)
			if !ok || len(call.Args) < 3 {
				return
			}
			nB++
			num, isConst := call.Args[1].(*ssa.Const)
			if isConst && num.Value != nil && num.Int64() >= 0 {
				c.R.Add(rule+"b", c.fk(f), fmt.Sprintf("call:%s/num=%d", an.FuncKey(a.TreeSummaryBuilder), num.Int64()), c.pos(in), true, "increment or recount: the list is not a decrement list")
				return
			}
			t := c.O.Of(call.Args[2])
			bad := ""
			t.Walk(func(x *an.Term) {
				if x.Op == "param" && isEntryPoint(f) {
					bad = "param:" + x.S
				}
			})
			construct := fmt.Sprintf("call:%s/decrement/list=%s", an.FuncKey(a.TreeSummaryBuilder), t.String())
			c.R.Add(rule+"b", c.fk(f), construct, c.pos(in), bad == "", ifelse(bad == "", "decrement list is derived from keys found present", "the tree-wide counters are decremented by the caller's list ("+bad+"), not by the keys actually removed: removing a method a route never had removes it from OPTIONS * although other routes serve it, and Remove(pattern) without methods decrements nothing"))
		})
	}
	if nB == 0 {
		c.R.Add(rule+"b", c.fk(a.TreeSummaryBuilder), "no-decrement-call", c.P.Pos(a.TreeSummaryBuilder.Pos()), true, "the tree-wide summary builder takes no (count, list) arguments: removals recount instead of decrementing")
	}
}

func isNamed(t types.Type, n *types.Named) bool {
	x, ok := types.Unalias(t).(*types.Named)
	return ok && x.Origin() == n.Origin()
}

// summarySetterOf: the summary setter a builder hands its computed value to (nil when it stores the summary itself).
func summarySetterOf(a *Anchors, b *ssa.Function) *ssa.Function {
	if b == nil {
		return nil
	}
	var setter *ssa.Function
	an.AllInstrs(b, func(in ssa.Instruction) {
		if call := an.CallOf(in); call != nil {
			if g := an.StaticCallee(call); g != nil && isSummarySetter(a, g) {
				setter = g
			}
		}
	})
	return setter
}
