package rules

import (
	"fmt"
	"go/constant"
	"go/types"
	"sort"
	"strings"

	"golang.org/x/tools/go/ssa"

	"muxlint/internal/an"
)

func init() {
	register(&Spec{
		ID: "C20",
		Explanation: "Decides accessor conformance (ORIGIN terms + dominance): Exists/String/MustString return Get's results; Int/Uint/Bool/Float return, on the found edge, the result pair of strconv.ParseInt(s,10,64)/ParseUint(s,10,64)/ParseBool(s)/ParseFloat(s,64) applied to the text Get returned, and (zero, ErrParamNotExists()) otherwise; each MustX calls the same strconv function with the same constants as X and returns the parsed value exactly on found && err == nil, its default otherwise; Count is len(params); Get is the comma-ok lookup; Set allocates on nil and stores under the given key on every path; Delete deletes the given key; Range ranges the map calling f(k, v); R2 a context obtained from the pool starts empty and nothing touches it once it is back in the pool (= C07.R3 b, c, e). " +
			"R6 (= C13.R10) the combinators' snapshot and restore of parameters. " +
			"R7 (= C05.R18) the zero Context is usable. " +
			"Not decided: strconv itself.",
		Assumptions: commonAssumptions,
		Run: func(c *Ctx) {
			ruleAccessors(c, "R1")
			rulePoolStartsEmpty(c, "R2")
			ruleCaptureDiscipline(c, "R3")
			ruleBacktrackUndo(c, "R4")
			ruleReadersWriteNothing(c, "R5", "context")
			ruleCombinators(c, "R6")
			ruleZeroContextIsUsable(c, "R7")
		},
	})
}

const getTerm = "call<types.(*Context).Get>(recv, param:key)"

type retSig struct {
	cond string
	vals string
}

// accessorReturns computes, for every return of f, the dominance condition
// (found / not found / err == nil / err != nil) and the result terms.
func (c *Ctx) accessorReturns(f *ssa.Function) []retSig {
	var out []retSig
	isFound := func(cond ssa.Value) bool { return c.O.Of(cond).String() == "extract<1>("+getTerm+")" }
	isErrNil := func(cond ssa.Value) (bool, bool) {
		x, k, eq, ok := an.CondAtom(cond)
		if !ok || k.Value != nil {
			return false, false
		}
		if isErrorTyped(x) {
			return true, eq
		}
		return false, false
	}
	for _, r := range an.Returns(f) {
		var conds []string
		for _, probe := range []struct {
			name string
			pred func(cond ssa.Value, truth bool) bool
		}{
			{"found", func(cond ssa.Value, truth bool) bool { return isFound(cond) && truth }},
			{"!found", func(cond ssa.Value, truth bool) bool { return isFound(cond) && !truth }},
			{"err==nil", func(cond ssa.Value, truth bool) bool {
				is, eq := isErrNil(cond)
				return is && eq == truth
			}},
			{"err!=nil", func(cond ssa.Value, truth bool) bool {
				is, eq := isErrNil(cond)
				return is && eq != truth
			}},
		} {
			probe := probe
			if an.DominatedByEdge(r, func(b *ssa.BasicBlock, succ int) bool { return edgeHas(b, succ, probe.pred) }) {
				conds = append(conds, probe.name)
			}
		}
		var vals []string
		for _, v := range r.Results {
			vals = append(vals, c.O.Of(v).String())
		}
		out = append(out, retSig{strings.Join(conds, "&"), strings.Join(vals, " | ")})
	}
	sort.Slice(out, func(i, j int) bool { return out[i].cond+out[i].vals < out[j].cond+out[j].vals })
	return out
}

func isErrorTyped(v ssa.Value) bool {
	return types.Identical(v.Type(), types.Universe.Lookup("error").Type())
}

func sigString(s []retSig) string {
	var parts []string
	for _, x := range s {
		parts = append(parts, "["+x.cond+"] → "+x.vals)
	}
	return strings.Join(parts, " ; ")
}

// ruleAccessors is C20.R1.
func ruleAccessors(c *Ctx, rule string) {
	c.R.Rule(c.R.Property+"."+rule, 16, "the Params accessors agree with each other, with the captured text and with strconv")
	ruleAccessorOutcomes(c, rule)
	saved := c.O
	c.O = an.NewOriginator(c.P)
	c.O.InlineDepth = 0
	defer func() { c.O = saved }()
	// Count
	cnt := c.P.MustFunc("types.(*Context).Count")
	got := c.accessorReturns(cnt)
	good := len(an.Returns(cnt)) > 0
	for _, r := range an.Returns(cnt) {
		if len(r.Results) != 1 {
			good = false
			continue
		}
		v := an.ReturnValue(r, 0)
		if c.O.Of(v).String() == "call<builtin:len>(recv.params)" {
			continue
		}
		// the count of a map that is nil (or empty) spelled out as 0
		k, isK := v.(*ssa.Const)
		zero := isK && k.Value != nil && k.Value.Kind() == constant.Int && k.Int64() == 0
		if !zero || !an.DominatedByEdge(r, func(b *ssa.BasicBlock, succ int) bool {
			return edgeHas(b, succ, func(cond ssa.Value, truth bool) bool {
				x, kk, eq, ok := an.CondAtom(cond)
				if !ok || eq != truth {
					return false
				}
				if kk.Value == nil {
					return an.AP(x) == "recv.params"
				}
				return kk.Value.Kind() == constant.Int && kk.Int64() == 0 && c.O.Of(x).String() == "call<builtin:len>(recv.params)"
			})
		}) {
			good = false
		}
	}
	c.R.Add(rule, c.fk(cnt), "returns", c.P.Pos(cnt.Pos()), good, ifelse(good, "len(params)", "Count returns "+sigString(got)))
	// Set: every path stores (k, v)
	set := c.P.MustFunc("types.(*Context).Set")
	isStoreKV := func(in ssa.Instruction) bool {
		mu, ok := in.(*ssa.MapUpdate)
		if !ok || an.AP(mu.Key) != "p:k" || an.AP(mu.Value) != "p:v" {
			return false
		}
		if an.AP(mu.Map) == "recv.params" {
			return true
		}
		// a helper on the same receiver that hands back the (possibly just allocated) parameter map
		if hc, ok := mu.Map.(*ssa.Call); ok {
			if g := an.StaticCallee(&hc.Call); g != nil && an.InModule(g) && len(hc.Call.Args) == 1 && an.AP(hc.Call.Args[0]) == "recv" {
				all := len(an.Returns(g)) > 0
				for _, r := range an.Returns(g) {
					if len(r.Results) != 1 || an.AP(an.ReturnValue(r, 0)) != "recv.params" {
						all = false
					}
				}
				if all {
					return true
				}
			}
		}
		if mk, ok := mu.Map.(*ssa.MakeMap); ok {
			for _, r := range *mk.Referrers() {
				if base, field, val, ok := fieldStoreAny(r); ok && base == "recv" && field == "params" && val == ssa.Value(mk) {
					return true
				}
			}
		}
		return false
	}
	path := (&an.Query{Target: func(t ssa.Instruction) bool { _, ok := t.(*ssa.Return); return ok }, Block: isStoreKV}).Search(an.Entry(set))
	c.R.Add(rule, c.fk(set), "stores(k,v)-on-every-path", c.P.Pos(set.Pos()), path == nil, ifelse(path == nil, "every path stores v under k (allocating the map when nil)", "Set can return without storing the pair"))
	// Delete
	del := c.P.MustFunc("types.(*Context).Delete")
	okDel := false
	an.AllInstrs(del, func(in ssa.Instruction) {
		if call, ok := builtinCall(in, "delete"); ok {
			okDel = an.AP(call.Args[0]) == "recv.params" && an.AP(call.Args[1]) == "p:k"
		}
	})
	pathD := (&an.Query{
		Assume: func(cond ssa.Value) (bool, bool) {
			x, k, eq, ok := an.CondAtom(cond)
			if ok && k.Value == nil && an.AP(x) == "recv.params" {
				return !eq, true // map exists
			}
			return false, false
		},
		Target: func(t ssa.Instruction) bool { _, ok := t.(*ssa.Return); return ok },
		Block:  func(t ssa.Instruction) bool { _, ok := builtinCall(t, "delete"); return ok },
	}).Search(an.Entry(del))
	c.R.Add(rule, c.fk(del), "deletes(k)", c.P.Pos(del.Pos()), okDel && pathD == nil, ifelse(okDel && pathD == nil, "delete(params, k) whenever the map exists", "Delete does not delete the given key from the parameters on every path"))
	// Range
	rng := c.P.MustFunc("types.(*Context).Range")
	okRange := false
	an.AllInstrs(rng, func(in ssa.Instruction) {
		if call, ok := in.(*ssa.Call); ok && an.CalleeName(&call.Call) == "dynamic:p:f" && len(call.Call.Args) == 2 {
			okRange = rangeKeyOf(call.Call.Args[0], "recv.params") && isRangeVal(call.Call.Args[1], "recv.params")
			// unconditional in the loop body
			if okRange {
				b := call.Block()
				okRange = len(b.Preds) == 1
				if okRange {
					if _, isIf := b.Preds[0].Instrs[len(b.Preds[0].Instrs)-1].(*ssa.If); isIf {
						// the only condition is the iterator's ok
						ifi := b.Preds[0].Instrs[len(b.Preds[0].Instrs)-1].(*ssa.If)
						ex, isEx := ifi.Cond.(*ssa.Extract)
						_, isNext := ex.Tuple.(*ssa.Next)
						okRange = isEx && isNext
					}
				}
			}
		}
	})
	c.R.Add(rule, c.fk(rng), "calls-f(k,v)-for-every-entry", c.P.Pos(rng.Pos()), okRange, ifelse(okRange, "ranges the map calling f(key, value) unconditionally", "Range does not call f(key, value) for every entry of the parameters"))
}

func isRangeVal(v ssa.Value, mapAP string) bool {
	ex, ok := v.(*ssa.Extract)
	if !ok || ex.Index != 2 {
		return false
	}
	nx, ok := ex.Tuple.(*ssa.Next)
	if !ok {
		return false
	}
	rg, ok := nx.Iter.(*ssa.Range)
	return ok && an.AP(rg.X) == mapAP
}

// rulePoolStartsEmpty is C20.R2: the C07.R3 (b) and (c) obligations under this property.
func rulePoolStartsEmpty(c *Ctx, rule string) {
	sub := an.NewReport(c.R.Property)
	cc := &Ctx{P: c.P, A: c.A, R: sub, O: c.O}
	rulePool(cc, "X")
	c.R.Rule(c.R.Property+"."+rule, 5, "a context obtained from the pool always starts empty")
	for _, o := range sub.Obls {
		if strings.HasSuffix(o.Rule, ".Xb") || strings.HasSuffix(o.Rule, ".Xc") || strings.HasSuffix(o.Rule, ".Xe") {
			c.R.Add(rule, o.Func, o.Construct, o.At, o.OK, o.Msg)
		}
	}
	_ = fmt.Sprint
}

// ruleAccessorOutcomes: the accessors evaluated by the abstract interpreter (absint.go) in every scenario.
func ruleAccessorOutcomes(c *Ctx, rule string) {
	parseID := map[string]string{
		"Int":   "strconv.ParseInt(10,64)",
		"Uint":  "strconv.ParseUint(10,64)",
		"Bool":  "strconv.ParseBool()",
		"Float": "strconv.ParseFloat(64)",
	}
	zero := map[string]string{"Int": "CONST:0", "Uint": "CONST:0", "Float": "CONST:0", "Bool": "CONST:false"}
	scenarios := []scenario{{mapNil: true, errNil: true}, {errNil: true}, {found: true, errNil: true}, {found: true, errNil: false}}
	expect := func(name string, sc scenario) string {
		switch name {
		case "Exists":
			return ifelse(sc.found, "CONST:true", "CONST:false")
		case "Get":
			return ifelse(sc.found, "(V, CONST:true)", `(CONST:"", CONST:false)`)
		case "String":
			return ifelse(sc.found, "(V, NIL)", `(CONST:"", ENOTEXIST)`)
		case "MustString":
			return ifelse(sc.found, "V", "DEF")
		}
		if base := strings.TrimPrefix(name, "Must"); base != name {
			if sc.found && sc.errNil {
				return "PVAL:" + parseID[base]
			}
			return "DEF"
		}
		if sc.found {
			return "(PVAL:" + parseID[name] + ", " + ifelse(sc.errNil, "NIL", "PERR:"+parseID[name]) + ")"
		}
		return "(" + zero[name] + ", ENOTEXIST)"
	}
	what := map[string]string{
		"Exists": "Exists is Get's found flag", "Get": "Get is the comma-ok lookup of the key", "String": "String is the captured text, or the not-exists error",
		"MustString": "MustString is the captured text when the key exists, the default otherwise",
	}
	for _, name := range []string{"Exists", "Get", "String", "MustString", "Int", "MustInt", "Uint", "MustUint", "Bool", "MustBool", "Float", "MustFloat"} {
		f := c.P.MustFunc("types.(*Context)." + name)
		var bad []string
		var okDesc []string
		for _, sc := range scenarios {
			got := accessorOutcomes(c, f, sc)
			want := expect(name, sc)
			if len(got) == 1 && (got[0] == want || matchesZero(got[0], want)) {
				okDesc = append(okDesc, want)
				continue
			}
			bad = append(bad, fmt.Sprintf("with %s it returns %s, expected %s", sc, strings.Join(got, " or "), want))
		}
		desc := what[name]
		if desc == "" {
			if strings.HasPrefix(name, "Must") {
				desc = name + " is the parsed value exactly when its strict counterpart succeeds, the default otherwise"
			} else {
				desc = name + " returns exactly what strconv returns for the captured text, and the not-exists error for an absent key"
			}
		}
		c.R.Add(rule, c.fk(f), "returns", c.P.Pos(f.Pos()), len(bad) == 0, ifelse(len(bad) == 0, desc+" (4 scenarios evaluated)", "accessor breaks its contract: "+strings.Join(bad, " ; ")))
	}
}

// matchesZero: got equals want once every generic zero value (ZERO) is read as the zero constant expected there.
func matchesZero(got, want string) bool {
	if !strings.Contains(got, "ZERO") {
		return false
	}
	for _, z := range []string{"CONST:0", "CONST:false", `CONST:""`, "NIL"} {
		if strings.ReplaceAll(got, "ZERO", z) == want {
			return true
		}
	}
	return false
}
