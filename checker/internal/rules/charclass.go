package rules

import (
	"fmt"
	"os"
	"strings"
	"unicode"

	"golang.org/x/tools/go/ssa"

	"muxlint/internal/an"
)

// charclass.go — character-class predicates decided by evaluation (symeval.go).
//
// MatchDigit, MatchWord and the port validator classify single characters. Each is evaluated on the one-character
// input consisting of a probe character (for the port validator: ':' followed by the probe), for every probe of a
// fixed list that contains both neighbours of every class boundary ('/', '0', '9', ':', '@', 'A', 'Z', '[', '`',
// 'a', 'z', '{'), DEL, and non-ASCII letters and decimal digits (é, Arabic-Indic three, full-width one). The
// verdict must be the constant the class definition gives: digits = [0-9], word = [0-9A-Za-z]. Loops over the
// input run for the one element, comparisons of constants are folded, predicates handed to strings.IndexFunc /
// ContainsFunc are evaluated on the probe, unicode.Is* are folded with the checker's own unicode tables.
var classProbes = []rune{'/', '0', '1', '9', ':', '@', 'A', 'B', 'Z', '[', '`', 'a', 'b', 'z', '{', 0x7f, 0xe9, 0x663, 0xff11}

func isASCIIDigit(r rune) bool { return r >= '0' && r <= '9' }
func isASCIIWord(r rune) bool {
	return isASCIIDigit(r) || (r >= 'a' && r <= 'z') || (r >= 'A' && r <= 'Z')
}

func ruleCharClasses(c *Ctx, rule string, keys ...string) {
	c.R.Rule(c.R.Property+"."+rule, 0, "the character classes are exactly [0-9] (digit interceptor, port) and [0-9A-Za-z] (word interceptor)")
	specs := map[string]struct {
		class  func(rune) bool
		name   string
		prefix bool // the probe follows a ':'
	}{
		"syntax.MatchDigit":     {isASCIIDigit, "[0-9]", false},
		"syntax.MatchWord":      {isASCIIWord, "[0-9A-Za-z]", false},
		"mux.validOptionalPort": {isASCIIDigit, "[0-9]", true},
	}
	for _, k := range keys {
		sp, ok := specs[k]
		f := c.P.Func(k)
		if !ok || f == nil {
			continue
		}
		var bad []string
		undecided := ""
		for _, probe := range classProbes {
			probe := probe
			pc := fmt.Sprintf("CONST:%d", probe)
			se := &symEval{c: c}
			isRest := func(e string) bool { return e == "REST" || e == "SLICE(P,CONST:1,_)" }
			se.elem = func(coll string) string {
				switch {
				case isRest(coll):
					return pc
				case coll == "P" && sp.prefix:
					return "CONST:58"
				case coll == "P":
					return pc
				}
				return ""
			}
			se.nonEmpty = func(coll string) bool { return coll == "P" || isRest(coll) }
			se.elemAt = func(coll string, idx int64) string {
				switch {
				case isRest(coll) && idx == 0:
					return pc
				case coll == "P" && sp.prefix && idx == 0:
					return "CONST:58"
				case coll == "P" && sp.prefix && idx == 1, coll == "P" && !sp.prefix && idx == 0:
					return pc
				}
				return ""
			}
			se.norm = func(e string) string {
				switch e {
				case "LEN(P)":
					if sp.prefix {
						return "CONST:2"
					}
					return "CONST:1"
				case "LEN(REST)", "LEN(SLICE(P,CONST:1,_))":
					return "CONST:1"
				}
				return e
			}
			se.truth = func(e string) int {
				switch e {
				case `EQ(P,CONST:"")`, `EQ(REST,CONST:"")`:
					return -1
				case `NE(P,CONST:"")`, `NE(REST,CONST:"")`:
					return 1
				}
				return 0
			}
			se.model = func(se *symEval, name string, call *ssa.CallCommon, args []sval, st *sstate) ([]sval, bool) {
				b := func(v bool) []sval { return []sval{sv(fmt.Sprintf("CONST:%v", v))} }
				if strings.HasPrefix(name, "unicode.") && len(args) == 1 {
					if n, ok := constInt(args[0].e); ok {
						switch name {
						case "unicode.IsDigit":
							return b(unicode.IsDigit(rune(n))), true
						case "unicode.IsNumber":
							return b(unicode.IsNumber(rune(n))), true
						case "unicode.IsLetter":
							return b(unicode.IsLetter(rune(n))), true
						case "unicode.IsUpper":
							return b(unicode.IsUpper(rune(n))), true
						case "unicode.IsLower":
							return b(unicode.IsLower(rune(n))), true
						}
					}
					return nil, false
				}
				switch name {
				case "strings.CutPrefix", "strings.CutSuffix":
					if sp.prefix && len(args) == 2 && args[0].e == "P" && args[1].e == `CONST:":"` && name == "strings.CutPrefix" {
						return []sval{{e: "TUPLE", tuple: []sval{sv("REST"), sv("CONST:true")}}}, true
					}
				case "strings.HasPrefix":
					if sp.prefix && len(args) == 2 && args[0].e == "P" && args[1].e == `CONST:":"` {
						return b(true), true
					}
				case "strings.TrimPrefix":
					if sp.prefix && len(args) == 2 && args[0].e == "P" && args[1].e == `CONST:":"` {
						return []sval{sv("REST")}, true
					}
				case "strings.IndexFunc", "strings.ContainsFunc":
					if len(args) == 2 && args[1].e == "FUNC" {
						el := se.elem(args[0].e)
						if el == "" {
							return nil, false
						}
						res := se.run(args[1].fn, []sval{sv(el)}, args[1].free, st, 1)
						if len(res) != 1 || len(res[0].ret) != 1 {
							return nil, false
						}
						switch res[0].ret[0].e {
						case "CONST:true":
							if name == "strings.ContainsFunc" {
								return b(true), true
							}
							return []sval{sv("CONST:0")}, true
						case "CONST:false":
							if name == "strings.ContainsFunc" {
								return b(false), true
							}
							return []sval{sv("CONST:-1")}, true
						}
					}
				}
				return nil, false
			}
			outs := se.outcomes(f, []sval{sv("P")})
			if os.Getenv("MUXLINT_DEBUG_CLASS") != "" {
				for _, o := range outs {
					fmt.Fprintf(os.Stderr, "%s probe %q: %s\n", k, string(probe), o.String())
				}
			}
			want := fmt.Sprintf("CONST:%v", sp.class(probe))
			for _, o := range outs {
				switch {
				case o.ret == want:
				case o.ret == "CONST:true" || o.ret == "CONST:false":
					bad = append(bad, fmt.Sprintf("%s %q (U+%04X)", ifelse(sp.class(probe), "rejects", "accepts"), string(probe), probe))
				default:
					undecided = fmt.Sprintf("%q: %s", string(probe), o.ret)
				}
			}
			if len(outs) == 0 {
				undecided = "no outcome"
			}
		}
		seen := map[string]bool{}
		var msgs []string
		for _, b := range bad {
			if !seen[b] {
				seen[b] = true
				msgs = append(msgs, b)
			}
		}
		if undecided != "" && len(msgs) == 0 {
			// the evaluator could not reduce the predicate to a constant: not decided (no obligation raised)
			c.R.Note("%s: character class not decided by evaluation (%s)", k, undecided)
			continue
		}
		input := ifelse(sp.prefix, "':' + probe", "the probe character")
		c.R.Add(rule, k, "class="+sp.name+"/by-evaluation", c.P.Pos(f.Pos()), len(msgs) == 0, ifelse(len(msgs) == 0, fmt.Sprintf("verdict on %s equals membership in %s for all %d probes", input, sp.name, len(classProbes)), "the predicate is not "+sp.name+": it "+strings.Join(msgs, ", ")))
	}
}

var _ = an.FuncKey
