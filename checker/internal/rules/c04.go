package rules

import "golang.org/x/tools/go/ssa"

func init() {
	register(&Spec{
		ID: "C04",
		Explanation: "Decides: R1 the method summary is rebuilt after every change of a handler map's key set; R2 the automatic OPTIONS/405 handlers are stored on, and stay with, the node object they were built for (a handler map never moves to another node object); R3 every summary is computed by a summary builder (TRACE clause under hasTrace, memo entry rendered) or is followed by one; R4 every removing entry point updates the tree-wide summary, and decrements come from keys actually removed; R5 summary/rendering conformance (one bit per method, builder ranges over all keys, renderer keeps exactly the set bits, Allow/Methods()/Routes() read one memo entry). " +
			"R16 every method of the table except the automatic entries, named in Remove's list, reaches the deletion of its entry. " +
			"R18 (= C01.R21) a rule with '{' is refused (two nodes for one pattern otherwise). " +
			"R19 (= C03.R20) installs are counted with the registered list. " +
			"Not decided: the arithmetic of the tree-wide counters for arbitrary histories.",
		Assumptions: commonAssumptions,
		Run: func(c *Ctx) {
			ruleSummaryRebuilt(c, "R1")
			ruleBuilderBinding(c, "R2")
			ruleSummaryByBuilder(c, "R3")
			ruleRemoversUpdateTreeSummary(c, "R4")
			ruleSummaryRendering(c, "R5")
			ruleRecountFilter(c, "R4c")
			ruleGlobals(c, "R8")
			ruleUnconditionalRecursion(c, "R4e", []*ssa.Function{c.A.TreeClean, c.A.TreeRemove, c.A.TreeRoutes}, "the recount and Routes() walk the subtree of every child, handler-less prefix nodes included")
			ruleExhaustiveWalks(c, "R4d", []*ssa.Function{c.A.TreeClean, c.A.TreeRemove, c.A.TreeRoutes}, "the recount and Routes() walk every node")
			ruleSummaryLockset(c, "R6")
			ruleRoutesLiveness(c, "R7")
			ruleReadersWriteNothing(c, "R9", "tree", "router")
			ruleInternalKeyIsNotAMethod(c, "R10")
			ruleFacadeRemovals(c, "R11")
			ruleReservedKeysNotDeletable(c, "R12", []string{"HEAD", "OPTIONS", ""}, "the method set of a pattern loses HEAD only with GET and never loses OPTIONS while another method remains: reserved keys are not deletable by name")
			ruleOnlyKnownConstantKeys(c, "R13")
			ruleRootMappedPathsAreNotPatterns(c, "R14")
			ruleSummaryReadOnlyOfLiveNodes(c, "R15")
			ruleOnlyAutomaticKeysAreKeptOnRemove(c, "R16")
			ruleReportedRoute(c, "R17")
			ruleRuleTextHasNoBraces(c, "R18")
			ruleInstallsAreCounted(c, "R19")
		},
	})
	register(&Spec{
		ID: "C17",
		Explanation: "Decides: R1 validate-before-mutate — no change of a handler map's key set, of a method summary or of the tree-wide counters reaches an error return of Tree.Add (interprocedural through its static callees); R2 the duplicate test dominates every install of a caller-supplied method (for the installed value, or for every element of the list in a two-pass form); R3 the error of Tree.Add is never dropped by its callers. " +
			"R6 the segment-level ambiguity verdict is false whenever the two segments differ in kind, constraint, suffix or end flag (symbolic evaluation, one field at a time). Not decided: that every pair identical up to names is found ambiguous (the ambiguousLength arithmetic and the split positions). R15 (= C02.R21) the split point of two segment texts, for all pairs of texts.",
		Assumptions: commonAssumptions,
		Run: func(c *Ctx) {
			ruleValidateBeforeMutate(c, "R1")
			for _, inst := range c.callerKeyInstalls() {
				c.R.Rule("C17.R2", 1, "a duplicate pattern+method is always rejected")
				ruleDupCheck(c, "R2", inst)
			}
			ruleListDuplicates(c, "R2b")
			ruleAddErrorNeverDropped(c, "R3")
			ruleSummaryIsNotLiveness(c, "R4")
			ruleSearchTriesEverySibling(c, "R5", []*ssa.Function{c.A.TreeAdd}, "a pattern identical up to parameter names to a live route is always rejected: the ambiguity search tries every sibling")
			ruleAmbiguityNeedsAgreement(c, "R6")
			ruleAmbiguitySearchSeesSplits(c, "R7")
			ruleAmbiguitySearchDiscipline(c, "R8", "R9")
			ruleAmbiguitySkipIsTextLength(c, "R10")
			ruleRegexpSplitOnRuneBoundary(c, "R11")
			ruleParameterNamesAreRemembered(c, "R12")
			ruleNameCleaned(c, "R13")
			ruleStrippedNameIsNotEmpty(c, "R14")
			ruleSplitPointAutomaton(c, "R15")
		},
	})
	register(&Spec{
		ID: "C08",
		Explanation: "Decides: R1 HEAD is installed with every GET install from the same handler value and middleware list; R2 HEAD is deleted with GET; R3 HEAD/OPTIONS/405 entries cannot be deleted by name; R4 validation (reserved names, method table membership, TRACE iff configured) dominates every install of a caller-supplied key; R5 the HEAD response writer swallows the body, counts it into Content-Length and exposes no bypass; R6/R7 OPTIONS is answered for every live pattern and cannot disappear while another method remains (every install is accompanied by the OPTIONS and 405 entries; they are deleted only together, when nothing else is left). " +
			"R11 (= C04.R16) Remove passes over automatic entries only. " +
			"Not decided: equality of all other headers and of the status between HEAD and GET for arbitrary handlers.",
		Assumptions: commonAssumptions,
		Run: func(c *Ctx) {
			ruleHeadWithGet(c, "R1")
			ruleHeadRemovedWithGet(c, "R2")
			ruleReservedKeysNotDeletable(c, "R3", []string{"HEAD", "OPTIONS", ""}, "HEAD is served exactly as long as GET is registered and OPTIONS cannot be removed while another method remains: reserved keys are not deletable by name")
			ruleValidationDominatesInstall(c, "R4", false)
			ruleHeadWriter(c, "R5")
			ruleAutoEntries(c, "R6")
			ruleAutoEntriesDeletedTogether(c, "R7")
			ruleRecoveryWriterIsCurrent(c, "R8")
			ruleHasTraceIsNonNil(c, "R9")
			ruleFacadeRemovals(c, "R10")
			ruleOnlyAutomaticKeysAreKeptOnRemove(c, "R11")
			ruleSameTypedSlotsAreNotCrossed(c, "R12")
		},
	})
}
