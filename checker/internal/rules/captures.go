package rules

import (
	"strings"

	"golang.org/x/tools/go/ssa"

	"muxlint/internal/an"
)

// captures.go — predicates of the syntax package about "does a successful match of this segment write a
// parameter" (Segment.Captures and anything of that shape), classified by evaluation (symeval.go):
//
//	capturing scenarios      Type in {Named, Regexp, Interceptor} and ignoreName == false
//	non-capturing scenarios  Type == String, or ignoreName == true
//
// impliesCapture: the predicate is true in every capturing scenario (so its false edge proves "wrote nothing");
// excludesIgnored: it is false in every non-capturing scenario (so its true edge proves "wrote its name").

type segPredicate struct {
	impliesCapture  bool
	excludesIgnored bool
}

func segmentPredicate(c *Ctx, g *ssa.Function) (segPredicate, bool) {
	if g == nil || len(g.Blocks) == 0 || !strings.HasPrefix(an.FuncKey(g), "syntax.") {
		return segPredicate{}, false
	}
	if len(g.Params) != 1 || !isPtrToNamed(g.Params[0].Type(), c.A.SegmentT) {
		return segPredicate{}, false
	}
	if g.Signature.Results().Len() != 1 || !isBoolType(g.Signature.Results().At(0).Type()) {
		return segPredicate{}, false
	}
	if c.segPreds == nil {
		c.segPreds = map[*ssa.Function]segPredicate{}
	}
	if p, ok := c.segPreds[g]; ok {
		return p, true
	}
	eval := func(kind string, ignored bool) []string {
		kv := c.A.Kind(kind)
		se := &symEval{c: c}
		se.truth = func(e string) int {
			b := func(v bool) int {
				if v {
					return 1
				}
				return -1
			}
			if e == "SEG.ignoreName" {
				return b(ignored)
			}
			// a parameter segment has a name, a literal one has none (the constructor refuses empty names)
			if strings.Contains(e, "SEG.Name") && strings.Contains(e, `CONST:""`) {
				isLiteral := kind == "String"
				switch {
				case strings.HasPrefix(e, "EQ("):
					return b(isLiteral)
				case strings.HasPrefix(e, "NE("):
					return b(!isLiteral)
				}
				return 0
			}
			if !strings.Contains(e, "SEG.Type") {
				return 0
			}
			same := strings.Contains(e, "CONST:"+kv+")") || strings.Contains(e, "CONST:"+kv+",")
			switch {
			case strings.HasPrefix(e, "EQ("):
				return b(same)
			case strings.HasPrefix(e, "NE("):
				return b(!same)
			}
			return 0
		}
		var outs []string
		for _, o := range se.outcomes(g, []sval{sv("SEG")}) {
			outs = append(outs, o.ret)
		}
		return outs
	}
	all := func(outs []string, want string) bool {
		for _, o := range outs {
			if o != want {
				return false
			}
		}
		return len(outs) > 0
	}
	p := segPredicate{impliesCapture: true, excludesIgnored: true}
	for _, k := range []string{"Named", "Regexp", "Interceptor"} {
		if !all(eval(k, false), "CONST:true") {
			p.impliesCapture = false
		}
		if !all(eval(k, true), "CONST:false") {
			p.excludesIgnored = false
		}
	}
	if !all(eval("String", false), "CONST:false") {
		p.excludesIgnored = false
	}
	c.segPreds[g] = p
	return p, true
}

// captureTest classifies a branch condition about the segment with access path segAP:
//
//	noCaptureEdge  the successor index (0 = true edge, 1 = false edge) on which the segment is known to have written
//	               nothing, or -1
//	captureEdge    the successor index on which the segment is known to write its name, or -1
func captureTest(c *Ctx, cond ssa.Value, segAP string) (noCaptureEdge, captureEdge int) {
	noCaptureEdge, captureEdge = -1, -1
	v, neg := stripNot(cond)
	edge := func(truth bool) int {
		if truth != neg {
			return 0
		}
		return 1
	}
	switch x := v.(type) {
	case *ssa.Call:
		g := an.StaticCallee(&x.Call)
		if g == nil {
			return
		}
		p, ok := segmentPredicate(c, an.Origin(g))
		if !ok || len(x.Call.Args) != 1 || an.AP(x.Call.Args[0]) != segAP {
			return
		}
		if p.impliesCapture {
			noCaptureEdge = edge(false)
		}
		if p.excludesIgnored {
			captureEdge = edge(true)
		}
	case *ssa.BinOp:
		// seg.Type == String / != String
		k := c.A.Kind("String")
		for _, pair := range [][2]ssa.Value{{x.X, x.Y}, {x.Y, x.X}} {
			cst, ok := pair[1].(*ssa.Const)
			if !ok || cst.Value == nil || cst.Value.ExactString() != k || an.AP(pair[0]) != segAP+".Type" {
				continue
			}
			switch x.Op.String() {
			case "==":
				noCaptureEdge = edge(true)
			case "!=":
				noCaptureEdge = edge(false)
			}
		}
	}
	return
}
