package rules

import (
	"fmt"
	"go/token"
	"go/types"
	"strings"

	"golang.org/x/tools/go/ssa"

	"muxlint/internal/an"
)

// callerKeyInstalls: installs whose key is not a constant (caller-supplied method names).
func (c *Ctx) callerKeyInstalls() []*handlerInstall {
	var out []*handlerInstall
	for _, i := range c.handlerInstalls() {
		if _, isConst := i.in.Key.(*ssa.Const); !isConst {
			out = append(out, i)
		}
	}
	return out
}

func (c *Ctx) isConstInstall(f *ssa.Function, in ssa.Instruction, x, key string) bool {
	mu, ok := in.(*ssa.MapUpdate)
	if !ok || !c.sameHandlerMap(f, mu.Map, x) {
		return false
	}
	k, ok := mu.Key.(*ssa.Const)
	return ok && an.ConstKey(k) == key
}

// ruleHeadWithGet is C08.R1.
func ruleHeadWithGet(c *Ctx, rule string) {
	c.R.Rule(c.R.Property+"."+rule, 1, "HEAD is served exactly when GET is: every install that may be GET installs HEAD from the same handler value on the same path")
	for _, inst := range c.callerKeyInstalls() {
		inst := inst
		mk := func(k ssa.Value) *an.Query {
			q := assumeEq("GET")(k)
			q.Block = func(in ssa.Instruction) bool { return c.isConstInstall(inst.f, in, inst.x, `"HEAD"`) }
			return q
		}
		path, reach := c.elemReaches(inst.in.Key, inst.in, mk)
		construct := "install:" + an.AP(inst.in.Key) + "/on:" + inst.x + "/GET-implies-HEAD"
		if reach {
			o := c.R.Add(rule, c.fk(inst.f), construct, c.pos(inst.in), false, "a GET handler can be installed on "+inst.x+" without installing HEAD: HEAD requests to that pattern get 405")
			o.Path = path
			continue
		}
		// same handler value
		var headVal *an.Term
		an.AllInstrs(inst.f, func(in ssa.Instruction) {
			if c.isConstInstall(inst.f, in, inst.x, `"HEAD"`) {
				headVal = c.O.Of(in.(*ssa.MapUpdate).Value)
			}
		})
		getVal := c.O.Of(inst.in.Value)
		same, why := sameWrap(headVal, getVal)
		c.R.Add(rule, c.fk(inst.f), construct, c.pos(inst.in), same, ifelse(same, "HEAD is installed on every GET path from the same handler and middleware list: "+headVal.String(), "HEAD is installed from a different value than GET: "+why))
	}
}

// sameWrap: both are ApplyMiddleware(h, M, pattern, router, ms) with equal h/pattern/router/ms.
func sameWrap(head, get *an.Term) (bool, string) {
	if head == nil || get == nil {
		return false, "no HEAD install found"
	}
	if head.Op != "call" || get.Op != "call" || head.S != get.S || len(head.Args) != len(get.Args) {
		return false, fmt.Sprintf("HEAD=%s GET=%s", head, get)
	}
	for i := range head.Args {
		if i == 1 {
			if head.Args[1].String() != `"HEAD"` {
				return false, "HEAD copy wrapped with method " + head.Args[1].String()
			}
			continue
		}
		if head.Args[i].String() != get.Args[i].String() {
			return false, fmt.Sprintf("argument %d differs: %s vs %s", i, head.Args[i], get.Args[i])
		}
	}
	return true, ""
}

// ruleHeadRemovedWithGet is C08.R2.
func ruleHeadRemovedWithGet(c *Ctx, rule string) {
	a := c.A
	c.R.Rule(c.R.Property+"."+rule, 1, "HEAD is removed together with GET")
	for _, f := range c.libFuncs() {
		an.AllInstrs(f, func(in ssa.Instruction) {
			call, ok := builtinCall(in, "delete")
			if !ok {
				return
			}
			base, ok := fieldLoadOf(call.Args[0], a.NodeT, a.FHandlers)
			if !ok {
				return
			}
			k := call.Args[1]
			if _, isConst := k.(*ssa.Const); isConst {
				return
			}
			mk := func(kk ssa.Value) *an.Query {
				q := assumeEq("GET")(kk)
				q.Block = func(x ssa.Instruction) bool {
					c2, ok := builtinCall(x, "delete")
					if !ok {
						return false
					}
					b2, ok := fieldLoadOf(c2.Args[0], a.NodeT, a.FHandlers)
					if !ok || b2 != base {
						return false
					}
					kc, ok := c2.Args[1].(*ssa.Const)
					return ok && an.ConstKey(kc) == `"HEAD"`
				}
				return q
			}
			path, reach := c.elemReaches(k, in, mk)
			construct := "delete:" + base + "." + a.FHandlers + "[" + an.AP(k) + "]/GET-implies-HEAD"
			if reach {
				o := c.R.Add(rule, c.fk(f), construct, c.pos(in), false, "GET can be deleted from "+base+" while its HEAD copy stays: HEAD keeps being served after GET was removed")
				o.Path = path
			} else {
				c.R.Add(rule, c.fk(f), construct, c.pos(in), true, "every path deleting GET deletes HEAD first")
			}
		})
	}
}

// ruleValidationDominatesInstall is C08.R4 (+ C17.R2, C18.R3).
func ruleValidationDominatesInstall(c *Ctx, rule string, withDup bool) {
	a := c.A
	c.R.Rule(c.R.Property+"."+rule, 3, "HEAD, OPTIONS (and TRACE when configured) can never be registered by hand and unknown method names are rejected: validation dominates every install of a caller-supplied key")
	assumeTrace := func(val bool) func(cond ssa.Value) (bool, bool) {
		return func(cond ssa.Value) (bool, bool) {
			v, neg := stripNot(cond)
			if strings.HasSuffix(an.AP(v), "."+a.FHasTrace) {
				return val != neg, true
			}
			return false, false
		}
	}
	for _, inst := range c.callerKeyInstalls() {
		k := inst.in.Key
		for _, res := range []string{"OPTIONS", "HEAD"} {
			path, reach := c.elemReaches(k, inst.in, assumeEq(res))
			construct := fmt.Sprintf("install:%s/on:%s/excludes:%s", an.AP(k), inst.x, res)
			o := c.R.Add(rule, c.fk(inst.f), construct, c.pos(inst.in), !reach, ifelse(!reach, res+" cannot reach the install", "a caller-supplied "+res+" reaches the install: the automatic "+res+" handler can be overwritten by hand"))
			o.Path = path
		}
		// TRACE: excluded iff a TRACE handler is configured
		pathT, reachT := c.elemReaches(k, inst.in, func(kk ssa.Value) *an.Query {
			q := assumeEq("TRACE")(kk)
			q.Assume = assumeTrace(true)
			return q
		})
		o := c.R.Add(rule, c.fk(inst.f), fmt.Sprintf("install:%s/on:%s/excludes:TRACE-when-configured", an.AP(k), inst.x), c.pos(inst.in), !reachT, ifelse(!reachT, "with hasTrace, TRACE cannot reach the install", "TRACE can be registered by hand although a TRACE handler is configured"))
		o.Path = pathT
		_, reachN := c.elemReaches(k, inst.in, func(kk ssa.Value) *an.Query {
			q := assumeEq("TRACE")(kk)
			q.Assume = assumeTrace(false)
			return q
		})
		c.R.Add(rule, c.fk(inst.f), fmt.Sprintf("install:%s/on:%s/admits:TRACE-when-not-configured", an.AP(k), inst.x), c.pos(inst.in), reachN, ifelse(reachN, "without hasTrace, TRACE is an ordinary method and reaches the install", "TRACE is refused although no TRACE handler is configured: it must be an ordinary method then"))
		// method table membership
		tableAP := "global:" + a.TreePkg.Name() + "." + a.MethodTable.Name()
		pathM, reachM := c.elemReaches(k, inst.in, func(kk ssa.Value) *an.Query {
			return &an.Query{BlockEdge: func(b *ssa.BasicBlock, succ int) bool {
				return commaOkEdge(b, succ, func(m, key ssa.Value) bool {
					return an.AP(m) == tableAP && an.AP(key) == an.AP(kk)
				})
			}}
		})
		o = c.R.Add(rule, c.fk(inst.f), fmt.Sprintf("install:%s/on:%s/requires:in-method-table", an.AP(k), inst.x), c.pos(inst.in), !reachM, ifelse(!reachM, "install only behind the found edge of the method-table lookup", "an unknown method name can be installed: it is served but never listed in Allow"))
		o.Path = pathM
		if withDup {
			ruleDupCheck(c, "R2", inst)
		}
	}
}

// ruleDupCheck is C17.R2: the install of key k is reachable only through the not-found edge of k in the same map.
func ruleDupCheck(c *Ctx, rule string, inst *handlerInstall) {
	k := inst.in.Key
	path, reach := c.elemReaches(k, inst.in, func(kk ssa.Value) *an.Query {
		return &an.Query{BlockEdge: func(b *ssa.BasicBlock, succ int) bool {
			// the found==false edge of a lookup of kk in the same map
			cond, onTrue := an.EdgeCond(b, succ)
			if cond == nil {
				return false
			}
			v, neg := stripNot(cond)
			ex, ok := v.(*ssa.Extract)
			if !ok || ex.Index != 1 {
				return false
			}
			lk, ok := ex.Tuple.(*ssa.Lookup)
			if !ok || !lk.CommaOk || !c.sameHandlerMap(inst.f, lk.X, inst.x) || an.AP(lk.Index) != an.AP(kk) {
				return false
			}
			foundEdge := onTrue != neg
			return !foundEdge
		}}
	})
	if reach && c.dupCheckedOnLookedUpNode(inst) {
		reach, path = false, ""
	}
	o := c.R.Add(rule, c.fk(inst.f), fmt.Sprintf("install:%s/on:%s/requires:not-present", an.AP(k), inst.x), c.pos(inst.in), !reach, ifelse(!reach, "install only behind the not-found edge of the presence test", "a method can be installed over an existing registration: a duplicate pattern+method is not rejected"))
	o.Path = path
}

// dupCheckedOnLookedUpNode: the installer receives the method list as a parameter, and at every call site a
// validating function ran before (its error checked) on the same list and on the node *looked up* under the same
// pattern the installer's node is obtained with — `checkMethods(tree.Find(pattern), methods)` before
// `getNode(Split(pattern))`. In the validator every element found present in that node's handler map is rejected
// (a nil node has nothing to duplicate).
func (c *Ctx) dupCheckedOnLookedUpNode(inst *handlerInstall) bool {
	a := c.A
	_, sl, isElem := an.RangeLoopOf(inst.in.Key)
	if !isElem {
		return false
	}
	par, ok := sl.(*ssa.Parameter)
	if !ok {
		return false
	}
	f := inst.f
	idx := -1
	for i, p := range f.Params {
		if p == par {
			idx = i
		}
	}
	sites := callSitesOf[an.Origin(f)]
	if idx < 0 || len(sites) == 0 {
		return false
	}
	for _, site := range sites {
		caller := siteParent(site)
		args := an.CallArgs(site)
		if caller == nil || idx >= len(args) || len(args) == 0 {
			return false
		}
		var siteInstr ssa.Instruction
		an.AllInstrs(caller, func(in ssa.Instruction) {
			if an.CallOf(in) == site {
				siteInstr = in
			}
		})
		if siteInstr == nil {
			return false
		}
		listAP := an.AP(args[idx])
		nodeTerm := c.O.Of(args[0]).String() // how the installer's node is obtained
		okSite := false
		an.AllInstrs(caller, func(in ssa.Instruction) {
			vcall, isCall := in.(*ssa.Call)
			if !isCall || okSite || in == siteInstr {
				return
			}
			v := an.StaticCallee(&vcall.Call)
			if v == nil || !an.InModule(v) || an.ErrorResultIndex(v) < 0 {
				return
			}
			vargs := an.CallArgs(&vcall.Call)
			lidx, nidx := -1, -1
			for i, av := range vargs {
				if an.AP(av) == listAP {
					lidx = i
				}
				if isPtrToNamed(av.Type(), a.NodeT) {
					nidx = i
				}
			}
			if lidx < 0 || nidx < 0 || lidx >= len(v.Params) || nidx >= len(v.Params) {
				return
			}
			// the validated node is looked up under a pattern that also determines the installer's node
			lookup, isLookup := vargs[nidx].(*ssa.Call)
			if !isLookup {
				return
			}
			lf := an.StaticCallee(&lookup.Call)
			if lf == nil || !an.InModule(lf) {
				return
			}
			samePattern := false
			for _, la := range an.CallArgs(&lookup.Call) {
				if isStringType(la.Type()) {
					if t := c.O.Of(la).String(); strings.Contains(nodeTerm, t) {
						samePattern = true
					}
				}
			}
			if !samePattern {
				return
			}
			// the validator's error is checked before the installer runs
			errVal := ssa.Value(vcall)
			passes := (&an.Query{
				Target: func(t ssa.Instruction) bool { return t == siteInstr },
				BlockEdge: func(b *ssa.BasicBlock, succ int) bool {
					cond, onTrue := an.EdgeCond(b, succ)
					if cond == nil {
						return false
					}
					x, kc, eq, ok := an.CondAtom(cond)
					return ok && kc.Value == nil && x == errVal && eq == onTrue
				},
			}).Search(an.Entry(caller)) == nil
			if !passes {
				return
			}
			// in the validator: an element present in the node's handler map never reaches the next element or a
			// successful return
			vlist, vnode := v.Params[lidx], v.Params[nidx]
			good := false
			for _, l := range rangeLoops(v) {
				if l.slice != ssa.Value(vlist) {
					continue
				}
				good = len(l.elems) > 0
				for _, e := range l.elems {
					e := e
					q := &an.Query{
						BlockEdge: func(b *ssa.BasicBlock, succ int) bool {
							cond, onTrue := an.EdgeCond(b, succ)
							if cond == nil {
								return false
							}
							vv, neg := stripNot(cond)
							// node == nil: nothing registered yet
							if x, kc, eq, ok := an.CondAtom(cond); ok && kc.Value == nil && x == ssa.Value(vnode) {
								return eq == onTrue
							}
							// the found flag of the lookup of this element in the node's handler map — directly, or through a
							// local that is false unless that lookup (behind `node != nil`) set it
							var isFound func(x ssa.Value, depth int) bool
							isFound = func(x ssa.Value, depth int) bool {
								if depth > 3 {
									return false
								}
								if phi, ok := x.(*ssa.Phi); ok {
									n := 0
									for _, pe := range phi.Edges {
										if kc, isC := pe.(*ssa.Const); isC && kc.Value != nil && kc.Value.ExactString() == "false" {
											continue
										}
										if !isFound(pe, depth+1) {
											return false
										}
										n++
									}
									return n > 0
								}
								ex, ok := x.(*ssa.Extract)
								if !ok || ex.Index != 1 {
									return false
								}
								lk, ok := ex.Tuple.(*ssa.Lookup)
								if !ok || !lk.CommaOk || an.AP(lk.Index) != an.AP(e.(ssa.Value)) {
									return false
								}
								// the map is the node's handler map, or a local that is nil unless it was loaded from it
								var isHandlers func(m ssa.Value, d int) bool
								isHandlers = func(m ssa.Value, d int) bool {
									if phi, ok := m.(*ssa.Phi); ok && d < 3 {
										n := 0
										for _, pe := range phi.Edges {
											if kc, isC := pe.(*ssa.Const); isC && kc.Value == nil {
												continue
											}
											if !isHandlers(pe, d+1) {
												return false
											}
											n++
										}
										return n > 0
									}
									base, isH := fieldLoadOf(m, a.NodeT, a.FHandlers)
									return isH && base == an.AP(vnode)
								}
								return isHandlers(lk.X, 0)
							}
							if !isFound(vv, 0) {
								return false
							}
							return (onTrue != neg) == false // the not-found edge
						},
						Target: func(t ssa.Instruction) bool {
							if t == e {
								return true
							}
							r, ok := t.(*ssa.Return)
							return ok && an.IsSuccessReturn(r)
						},
					}
					if q.Search(an.After(e)) != nil {
						good = false
					}
				}
			}
			if good {
				okSite = true
			}
		})
		if !okSite {
			return false
		}
	}
	return true
}

// ruleValidateBeforeMutate is C17.R1: no observable registration state changes
// before an error return of Tree.Add (transitively).
func ruleValidateBeforeMutate(c *Ctx, rule string) {
	a := c.A
	c.R.Rule(c.R.Property+"."+rule, 1, "a rejected Handle changes nothing: no change of handler maps, summaries or counters reaches an error return of registration")
	g := an.NewGraph(c.P)
	reach := g.Reach([]*ssa.Function{a.TreeAdd}, func(from *ssa.Function, e an.Edge) bool { return e.Kind == "static" })
	observable := func(f *ssa.Function, in ssa.Instruction) (string, string, bool) {
		if x, what, ok := c.handlerMapMutation(f, in); ok {
			return x, what, true
		}
		if base, field, _, ok := fieldStore(in, a.NodeT); ok && field == a.FSummary {
			return base, "store:" + a.FSummary, true
		}
		if mu, ok := in.(*ssa.MapUpdate); ok {
			if base, ok := fieldLoadOf(mu.Map, a.TreeT, a.FCounters); ok {
				return base, "update:" + a.FCounters, true
			}
		}
		return "", "", false
	}
	// functions that mutate on some path to a successful return
	mutates := map[*ssa.Function]bool{}
	for changed := true; changed; {
		changed = false
		for f := range reach {
			if mutates[f] || len(f.Blocks) == 0 {
				continue
			}
			an.AllInstrs(f, func(in ssa.Instruction) {
				if mutates[f] {
					return
				}
				if _, _, ok := observable(f, in); ok {
					mutates[f] = true
					changed = true
					return
				}
				if call := an.CallOf(in); call != nil {
					if gcallee := an.StaticCallee(call); gcallee != nil && mutates[gcallee] {
						mutates[f] = true
						changed = true
					}
				}
			})
		}
	}
	n := 0
	for _, f := range an.SortedFuncs(reach) {
		if len(f.Blocks) == 0 || an.ErrorResultIndex(f) < 0 {
			continue
		}
		an.AllInstrs(f, func(in ssa.Instruction) {
			x, what, ok := observable(f, in)
			if !ok {
				if call := an.CallOf(in); call != nil {
					if gcallee := an.StaticCallee(call); gcallee != nil && mutates[gcallee] && an.ErrorResultIndex(gcallee) < 0 {
						x, what, ok = an.AP(an.CallArgs(call)[0]), "call:"+an.FuncKey(gcallee), true
					}
				}
			}
			if !ok || strings.HasPrefix(x, "alloc:") {
				return
			}
			n++
			q := &an.Query{Facts: true, Target: func(t ssa.Instruction) bool {
				r, ok := t.(*ssa.Return)
				if !ok {
					return false
				}
				if an.IsErrorReturn(r) {
					return true
				}
				// `return g(...)` where g can itself return an error
				if ei := an.ErrorResultIndex(f); ei >= 0 {
					v := an.ReturnValue(r, ei)
					if ex, isEx := v.(*ssa.Extract); isEx {
						v = ex.Tuple
					}
					if call, isCall := v.(*ssa.Call); isCall && ssa.Instruction(call) != in {
						if g2 := an.StaticCallee(&call.Call); g2 != nil && an.InModule(g2) {
							for _, rr := range an.Returns(g2) {
								if an.IsErrorReturn(rr) {
									return true
								}
							}
						}
					}
				}
				return false
			}}
			path := q.Search(an.After(in))
			construct := strings.ReplaceAll(what, " ", "-") + "/on:" + x + "/then-error-return"
			if path == nil {
				c.R.Add(rule, c.fk(f), construct, c.pos(in), true, "no error return is reachable after this change")
			} else {
				o := c.R.Add(rule, c.fk(f), construct, c.pos(in), false, "registration state of "+x+" changes ("+what+") and an error return is still reachable: a rejected Handle leaves part of its method list installed (served but not listed, OPTIONS/405 entry possibly missing)")
				o.Path = c.P.PathString(path)
			}
		})
	}
	if n == 0 {
		an.Fatalf("UNRESOLVED anchor: no registration-state mutation reachable from %s", an.FuncKey(a.TreeAdd))
	}
	// the structure of the tree is registration state too: once the nodes of the pattern were created or split (a
	// split changes the order of equal-priority siblings, hence dispatch) the registration must not be rejected any
	// more. Errors of the structure-building call itself are its own business (a pattern that passed the syntax and
	// ambiguity checks builds); any *later* error exit of Tree.Add is a rejection after the change.
	restructures := map[*ssa.Function]bool{}
	for changed := true; changed; {
		changed = false
		for f := range reach {
			if restructures[f] || len(f.Blocks) == 0 {
				continue
			}
			an.AllInstrs(f, func(in ssa.Instruction) {
				if restructures[f] {
					return
				}
				if base, field, _, ok := fieldStore(in, a.NodeT); ok && field == a.FChildren && !strings.HasPrefix(base, "alloc:") {
					restructures[f] = true
					changed = true
					return
				}
				if call := an.CallOf(in); call != nil {
					if g2 := an.StaticCallee(call); g2 != nil && restructures[g2] {
						restructures[f] = true
						changed = true
					}
				}
			})
		}
	}
	add := a.TreeAdd
	an.AllInstrs(add, func(in ssa.Instruction) {
		call, ok := in.(*ssa.Call)
		if !ok {
			return
		}
		g2 := an.StaticCallee(&call.Call)
		if g2 == nil || !restructures[g2] {
			return
		}
		ownErr := func(v ssa.Value) bool {
			ex, ok := v.(*ssa.Extract)
			return ok && ex.Tuple == ssa.Value(call)
		}
		q := &an.Query{
			Facts: true,
			Assume: func(cond ssa.Value) (bool, bool) {
				x, k, eq, ok := an.CondAtom(cond)
				if ok && k.Value == nil && ownErr(x) {
					return eq, true // the structure was built: its own error is nil
				}
				return false, false
			},
			Target: func(t ssa.Instruction) bool {
				r, ok := t.(*ssa.Return)
				if !ok || t.Parent() != add {
					return false
				}
				ei := an.ErrorResultIndex(add)
				if ei < 0 {
					return false
				}
				v := an.ReturnValue(r, ei)
				if ownErr(v) {
					return false
				}
				if an.IsErrorReturn(r) {
					return true
				}
				if ex, isEx := v.(*ssa.Extract); isEx {
					v = ex.Tuple
				}
				if c2, isCall := v.(*ssa.Call); isCall {
					if g3 := an.StaticCallee(&c2.Call); g3 != nil && an.InModule(g3) {
						for _, rr := range an.Returns(g3) {
							if an.IsErrorReturn(rr) {
								return true
							}
						}
					}
				}
				return false
			},
		}
		path := q.Search(an.After(in))
		o := c.R.Add(rule, c.fk(add), "call:"+an.FuncKey(g2)+"/structure-built/then-error-return", c.pos(in), path == nil, ifelse(path == nil, "once the nodes of the pattern exist the registration can no longer be rejected", "the nodes of the pattern are created (existing nodes split) and the registration can still be rejected afterwards (method validation): the rejected Handle has changed the order of equal-priority siblings, so requests that went to one route now go to another while Routes() is unchanged"))
		if path != nil {
			o.Path = c.P.PathString(path)
		}
	})
}

// ruleAddErrorNeverDropped is C17.R3.
func ruleAddErrorNeverDropped(c *Ctx, rule string) {
	a := c.A
	c.R.Rule(c.R.Property+"."+rule, 2, "the error of Tree.Add is never dropped: every caller panics with it")
	for _, f := range c.libFuncs() {
		an.AllInstrs(f, func(in ssa.Instruction) {
			call, ok := in.(*ssa.Call)
			if !ok {
				return
			}
			if _, is := calleeIs(in, a.TreeAdd); !is {
				return
			}
			// every path from the call to a return passes the err == nil edge; the other edge panics with err
			errAP := an.AP(call)
			panics := false
			an.AllInstrs(f, func(x ssa.Instruction) {
				if p, ok := x.(*ssa.Panic); ok && an.AP(p.X) == errAP {
					panics = true
				}
			})
			path := (&an.Query{
				Target: func(t ssa.Instruction) bool { _, ok := t.(*ssa.Return); return ok },
				BlockEdge: func(b *ssa.BasicBlock, succ int) bool {
					cond, onTrue := an.EdgeCond(b, succ)
					if cond == nil {
						return false
					}
					x, k, eq, ok := an.CondAtom(cond)
					return ok && k.Value == nil && an.AP(x) == errAP && eq == onTrue
				},
			}).Search(an.After(in))
			good := panics && path == nil
			c.R.Add(rule, c.fk(f), "call:"+an.FuncKey(a.TreeAdd)+"/error-checked-and-panicked", c.pos(in), good, ifelse(good, "returns only on err == nil; panics with the error otherwise", "the error of Tree.Add can be dropped: a rejected registration goes unnoticed"))
		})
	}
}

// ruleListDuplicates is C17.R2b: a method named twice in one Handle call is a duplicate pattern+method too. The
// validating loop over the method list of a registration must tell repeated elements apart from distinct ones, by one
// of the idioms enumerated here: Contains(list[:i], m) / Contains(list[i+1:], m); Index(list, m) compared with the
// loop index; a local "seen" map updated and consulted with the element; Sort followed by Compact (Compact alone only
// folds adjacent repeats); a nested loop over the same list comparing the elements.
func ruleListDuplicates(c *Ctx, rule string) {
	a := c.A
	c.R.Rule(c.R.Property+"."+rule, 1, "a method repeated inside one method list is rejected like any duplicate pattern+method")
	g := an.NewGraph(c.P)
	reach := g.Reach([]*ssa.Function{a.TreeAdd}, func(_ *ssa.Function, e an.Edge) bool { return e.Kind == "static" })
	n := 0
	for _, f := range an.SortedFuncs(reach) {
		if !an.IsLibrary(f) || an.ErrorResultIndex(f) < 0 {
			continue
		}
		for _, l := range rangeLoops(f) {
			sl, ok := l.slice.Type().Underlying().(*types.Slice)
			if !ok {
				continue
			}
			if b, ok := sl.Elem().Underlying().(*types.Basic); !ok || b.Kind() != types.String {
				continue
			}
			isParamList := func(v ssa.Value) bool {
				if _, ok := v.(*ssa.Parameter); ok {
					return true
				}
				if phi, ok := v.(*ssa.Phi); ok { // `if len(methods) == 0 { methods = defaults }`
					for _, e := range phi.Edges {
						if _, ok := e.(*ssa.Parameter); ok {
							return true
						}
					}
				}
				return false
			}
			if !isParamList(l.slice) {
				continue
			}
			// a validating loop: an error return inside the body
			hb := l.hdr.Block()
			validating := false
			for _, r := range an.Returns(f) {
				if hb.Succs[0].Dominates(r.Block()) && !hb.Succs[1].Dominates(r.Block()) && an.IsErrorReturn(r) {
					validating = true
				}
			}
			if !validating {
				continue
			}
			n++
			listAP := an.AP(l.slice)
			elemAPs := map[string]bool{}
			for _, e := range l.elems {
				if v, ok := e.(ssa.Value); ok {
					elemAPs[an.AP(v)] = true
				}
			}
			isElem := func(v ssa.Value) bool { return elemAPs[an.AP(v)] }
			idiom := ""
			sorted := map[string]bool{}
			nestedLoops := 0
			for _, l2 := range rangeLoops(f) {
				if an.AP(l2.slice) == listAP || strings.HasPrefix(an.AP(l2.slice), listAP) {
					nestedLoops++
				}
			}
			an.AllInstrs(f, func(in ssa.Instruction) {
				if call := an.CallOf(in); call != nil {
					switch an.CalleeName(call) {
					case "slices.Contains":
						if s, ok := call.Args[0].(*ssa.Slice); ok && an.AP(s.X) == listAP && isElem(call.Args[1]) && (s.High != nil || s.Low != nil) {
							idiom = "Contains(list[:i], m)"
						}
					case "slices.Index":
						if an.AP(call.Args[0]) == listAP && isElem(call.Args[1]) {
							idiom = "Index(list, m) against the loop index"
						}
					case "slices.Sort", "sort.Strings":
						sorted[an.AP(call.Args[0])] = true
					case "slices.Compact":
						if sorted[an.AP(call.Args[0])] {
							idiom = "Sort + Compact"
						}
					}
				}
				if mu, ok := in.(*ssa.MapUpdate); ok && isElem(mu.Key) {
					if _, isMake := mu.Map.(*ssa.MakeMap); isMake {
						idiom = "seen-map"
					}
				}
				// a bit set of the elements seen so far: `seen&bit != 0` is tested and `seen |= bit` carried round the
				// loop, with bit looked up for the element
				if bo, ok := in.(*ssa.BinOp); ok && bo.Op == token.AND {
					for _, pair := range [][2]ssa.Value{{bo.X, bo.Y}, {bo.Y, bo.X}} {
						acc, isPhi := pair[0].(*ssa.Phi)
						if !isPhi {
							continue
						}
						bit := pair[1]
						fromElem := false
						if ex, isEx := bit.(*ssa.Extract); isEx {
							if lk, isLk := ex.Tuple.(*ssa.Lookup); isLk && isElem(lk.Index) {
								fromElem = true
							}
						}
						if lk, isLk := bit.(*ssa.Lookup); isLk && isElem(lk.Index) {
							fromElem = true
						}
						if !fromElem {
							continue
						}
						for _, e := range acc.Edges {
							if or, isOr := e.(*ssa.BinOp); isOr && or.Op == token.OR && ((or.X == ssa.Value(acc) && or.Y == bit) || (or.Y == ssa.Value(acc) && or.X == bit)) {
								idiom = "seen bit set"
							}
						}
					}
				}
				if bo, ok := in.(*ssa.BinOp); ok && (bo.Op == token.EQL || bo.Op == token.NEQ) && nestedLoops >= 2 {
					if strings.HasPrefix(an.AP(bo.X), listAP+"[]") && strings.HasPrefix(an.AP(bo.Y), listAP+"[]") {
						idiom = "nested comparison"
					}
				}
			})
			c.R.Add(rule, c.fk(f), "range("+listAP+")/repeated-element-rejected", c.pos(l.elems[0]), idiom != "", ifelse(idiom != "", "repeated elements are detected ("+idiom+")", "the validating loop over "+listAP+" never compares an element with the other elements of the list (Contains(list[:i], m), a seen-map, Sort+Compact, …): a method named twice in one call is registered twice and counted twice"))
		}
	}
	if n == 0 {
		c.R.Add(rule, c.fk(a.TreeAdd), "validating-loop", c.P.Pos(a.TreeAdd.Pos()), false, "no loop below Tree.Add validates the method list element by element")
	}
}
