package rules

import (
	"strings"

	"golang.org/x/tools/go/ssa"

	"muxlint/internal/an"
)

func init() {
	register(&Spec{
		ID: "C06",
		Explanation: "Decides (lockset over the module call graph, under the assumption that the lock exists, i.e. WithLock(true)): R1 every read of shared tree state (fields of node/Tree written by code reachable from Add/Remove/Clean outside construction) reachable from the listed operations Tree.{Add,Remove,Clean,Routes,URL,Handler} and from the types.Node methods happens under the tree lock in read mode at least, every write in write mode — at the access or at every call site on the chain; R2 every acquisition is released on every path to every exit and the lock is never re-acquired while held; R4 within one operation the lock is never acquired again after it was released (no check-then-act gap between validation and mutation); R3 the acquired-while-held relation between all mutexes of the module (tree lock, package-level memo mutex) is acyclic, so serving and registering goroutines cannot deadlock on each other. " +
			"R12 (= C03.R18) a split keeps the node's place among its siblings. " +
			"Not decided: linearizability of responses; races inside user handlers; Router.Use (not among the listed operations).",
		Assumptions: append([]string{"the lock field is non-nil (the property is about WithLock(true)): the nil edge of `locker != nil` is pruned", "closures created in a function run while that function's lock state holds (true for every closure of the tree package: comparator and deferred unlocks)"}, commonAssumptions...),
		Run: func(c *Ctx) {
			ruleLockset(c, "R1", "R2")
			ruleLockOrder(c, "R3")
			ruleLockOptionReachesTree(c, "R5")
			ruleGlobals(c, "R6")
			rulePoolReleaseOnce(c, "R7")
			ruleGroupOptionOrder(c, "R8")
			ruleReadersWriteNothing(c, "R9")
			ruleNodeMethodSetReadOnce(c, "R10")
			ruleAnswerFromOneSection(c, "R11")
			ruleSplitKeepsThePosition(c, "R12")
			ruleIndexRebuilt(c, "R13")
		},
	})
}

func treeEntryPoints(c *Ctx) []*ssa.Function {
	a := c.A
	entries := []*ssa.Function{a.TreeAdd, a.TreeRemove, a.TreeClean, a.TreeRoutes, a.TreeURL, a.TreeHandler}
	// the types.Node methods of node escape to user handlers and to cors.handle
	iface := lookupNamed(a.TypesPkg, "Node").Underlying()
	for _, f := range c.libFuncs() {
		if f.Signature.Recv() == nil || f.Parent() != nil {
			continue
		}
		if !strings.HasPrefix(an.FuncKey(f), a.TreePkg.Name()+".(*"+a.NodeT.Obj().Name()+").") {
			continue
		}
		for i := 0; i < ifaceNumMethods(iface); i++ {
			if ifaceMethodName(iface, i) == f.Name() {
				entries = append(entries, f)
			}
		}
	}
	return entries
}

func ruleLockset(c *Ctx, r1, r2 string) {
	la, shared := treeLockAnalysis(c)
	c.R.Anchor("sharedTreeState", strings.Join(shared, ", "))
	if len(shared) < 4 {
		an.Fatalf("UNRESOLVED anchor: shared tree state has only %d fields (%v)", len(shared), shared)
	}
	entries := treeEntryPoints(c)
	c.R.Rule(c.R.Property+"."+r1, 9, "no data race on the routing state: every access reachable from the listed operations holds the tree lock in the right mode")
	c.R.Rule(c.R.Property+"."+r2, 6, "no leaked and no re-entrant acquisition of the tree lock")
	for _, e := range entries {
		la.CheckEntry(r1, e)
	}
	la.CheckPairing(r2, entries)
	c.R.Rule(c.R.Property+".R4", 4, "every operation is one critical section: the tree lock is never re-acquired after a release within one operation")
	la.CheckSingleSection("R4", entries)
}
