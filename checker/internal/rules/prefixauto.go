package rules

import (
	"fmt"
	"go/constant"
	"go/token"
	"go/types"
	"os"
	"sort"
	"strings"

	"golang.org/x/tools/go/ssa"

	"muxlint/internal/an"
)

// prefixauto.go — C02.R21 / C03.R21 / C05.R20 / C17.R15: the split point of two segment texts, decided for every
// pair of strings by abstract interpretation of the function's SSA.
//
// The function that computes the common prefix of two segment texts (syntax.longestPrefix, found by its role: the
// (string, string) int function of the syntax package that Segment.Similarity calls) is data independent: it looks
// at the two texts one position at a time, compares the bytes only with '{', '}' and with each other, and keeps a
// few scalars. Its behaviour is therefore a function of the word of *symbols* (class of s1[i], class of s2[i], equal
// or not) — an alphabet of ten letters — and of where the shorter text ends. The abstract interpreter below runs the
// SSA of the function over that alphabet:
//
//	bytes    s1[i], s2[i] (their class comes from the current symbol), byte constants
//	integers i−k for k = −1, 0, 1 (exact distance to the loop counter), "older" (≤ i−2, ≥ 0), negative constants,
//	         small constants, the length
//	every integer that holds a position carries the tag "equals the start of the last parameter" (=P)
//
// together with a reference automaton of the documented rule (a state of three booleans: inside a parameter, the
// previous byte closed a parameter, a parameter was opened at all):
//
//	at the first position where the texts differ the answer is the start of the last parameter when that position
//	is inside a parameter (before or after consuming s1[i]) or directly behind one — a parameter is never cut and is
//	always followed by at least one literal byte — and the position itself otherwise; a '{' inside a parameter
//	({id:\d{2}) opens nothing, a '}' outside a parameter (/path}) closes nothing; when the shorter text ends the
//	answer is its length unless its last byte closed a parameter.
//
// Configurations (abstract values of the loop-carried registers × reference state) are finite, so the exploration
// reaches a fixpoint: agreement at every return of every configuration is agreement for all inputs of all lengths.
// A disagreement is reported with a pair of concrete strings built from the abstract word. Code the interpreter
// cannot follow (an undecidable branch, a call it cannot enter) ends in "not decided", which is a note, never an
// alarm.

type pvKind int

const (
	pvUnk    pvKind = iota
	pvNeg           // negative constant c
	pvConst         // non-negative constant c
	pvRel           // == i - k (k in -1, 0, 1)
	pvOld           // <= i - k (k >= 1), >= 0
	pvLen           // the length of (one of) the texts / their minimum
	pvByte1         // s1[i]
	pvByte2         // s2[i]
	pvBConst        // byte / rune constant c
	pvBool          // c != 0
	pvStr1          // the first text
	pvStr2          // the second text
)

type pv struct {
	kind pvKind
	k    int
	c    int64
	eqP  bool // equals the start of the last parameter opened (reference state)
}

func (v pv) key() string { return fmt.Sprintf("%d.%d.%d.%v", v.kind, v.k, v.c, v.eqP) }

type pclass int

const (
	pOther pclass = iota
	pOpen
	pClose
)

type psym struct {
	c1, c2 pclass
	eq     bool
}

func (s psym) chars() (byte, byte) {
	ch := func(c pclass, alt bool) byte {
		switch c {
		case pOpen:
			return '{'
		case pClose:
			return '}'
		}
		if alt {
			return 'b'
		}
		return 'a'
	}
	return ch(s.c1, false), ch(s.c2, !s.eq)
}

var prefixAlphabet = func() []psym {
	var out []psym
	for _, a := range []pclass{pOther, pOpen, pClose} {
		for _, b := range []pclass{pOther, pOpen, pClose} {
			if a == b {
				out = append(out, psym{a, b, true})
				if a == pOther {
					out = append(out, psym{a, b, false})
				}
			} else {
				out = append(out, psym{a, b, false})
			}
		}
	}
	return out
}()

type pspec struct {
	inside     bool // inside a parameter after the bytes consumed so far
	justClosed bool // the previous byte closed a parameter
	pSet       bool // a parameter was opened at all
}

type pconf struct {
	env    map[ssa.Value]pv
	spec   pspec
	sym    *psym
	setP   bool // the reference sets P = i in the current iteration
	exited bool
	exitK  int // after the exit: length == i - exitK (0: tested at the top, -1: tested at the bottom after i was used)
	iZero  bool
	word   []psym
}

func (c *pconf) clone() *pconf {
	n := *c
	n.env = make(map[ssa.Value]pv, len(c.env))
	for k, v := range c.env {
		n.env[k] = v
	}
	n.word = append([]psym(nil), c.word...)
	return &n
}

type prefixInterp struct {
	f         *ssa.Function
	undecided string
	bad       []string
	returns   int
	configs   int
	visited   map[string]bool
	steps     int
}

func (x *prefixInterp) fail(why string) {
	if x.undecided == "" {
		x.undecided = why
	}
}

func constPV(k *ssa.Const) pv {
	if k.Value == nil {
		return pv{kind: pvUnk}
	}
	switch k.Value.Kind() {
	case constant.Bool:
		if constant.BoolVal(k.Value) {
			return pv{kind: pvBool, c: 1}
		}
		return pv{kind: pvBool}
	case constant.Int:
		n := k.Int64()
		if b, ok := k.Type().Underlying().(*types.Basic); ok && (b.Kind() == types.Uint8 || b.Kind() == types.Int32 || b.Kind() == types.UntypedRune) {
			return pv{kind: pvBConst, c: n}
		}
		if n < 0 {
			return pv{kind: pvNeg, c: n}
		}
		return pv{kind: pvConst, c: n}
	}
	return pv{kind: pvUnk}
}

func (x *prefixInterp) val(v ssa.Value, st *pconf) pv {
	if k, ok := v.(*ssa.Const); ok {
		return constPV(k)
	}
	if r, ok := st.env[v]; ok {
		return r
	}
	return pv{kind: pvUnk}
}

// order: -1 (a < b), 0 (a == b), +1 (a > b); ok=false when the abstraction cannot tell
func (x *prefixInterp) order(a, b pv, st *pconf) (int, bool) {
	isConst := func(v pv) bool { return v.kind == pvNeg || v.kind == pvConst }
	isRel := func(v pv) bool { return v.kind == pvRel || v.kind == pvOld }
	sign := func(d int64) int {
		switch {
		case d < 0:
			return -1
		case d > 0:
			return 1
		}
		return 0
	}
	switch {
	case isConst(a) && isConst(b):
		return sign(a.c - b.c), true
	case isRel(a) && isRel(b):
		// value - i lies in [lo, hi]
		rng := func(v pv) (int64, int64) {
			if v.kind == pvRel {
				return int64(-v.k), int64(-v.k)
			}
			return -1 << 40, int64(-v.k)
		}
		alo, ahi := rng(a)
		blo, bhi := rng(b)
		switch {
		case alo == ahi && blo == bhi:
			return sign(alo - blo), true
		case ahi < blo:
			return -1, true
		case alo > bhi:
			return 1, true
		}
		return 0, false
	case isConst(a) && isRel(b):
		o, ok := x.order(b, a, st)
		return -o, ok
	case isRel(a) && isConst(b):
		if st.iZero {
			if a.kind != pvRel {
				return 0, false
			}
			return sign(int64(-a.k) - b.c), true // i == 0
		}
		// i >= 1: every position that exists is >= 0
		if b.c < 0 {
			return 1, true
		}
		if b.c == 0 && a.kind == pvRel && a.k <= 0 {
			return 1, true
		}
		return 0, false
	}
	return 0, false
}

// cmpInt: the truth of a <op> b; known=false when the abstraction cannot tell
func (x *prefixInterp) cmpInt(op token.Token, a, b pv, st *pconf) (bool, bool) {
	o, ok := x.order(a, b, st)
	if !ok {
		// a position that exists is never negative: pos >= 0, pos > -1 … without knowing whether it is 0
		isPosn := func(v pv) bool { return v.kind == pvOld || (v.kind == pvRel && (v.k <= 0 || !st.iZero)) }
		if isPosn(a) && b.kind == pvConst && b.c == 0 {
			switch op {
			case token.GEQ:
				return true, true
			case token.LSS:
				return false, true
			}
		}
		if isPosn(b) && a.kind == pvConst && a.c == 0 {
			switch op {
			case token.LEQ:
				return true, true
			case token.GTR:
				return false, true
			}
		}
		return false, false
	}
	switch op {
	case token.EQL:
		return o == 0, true
	case token.NEQ:
		return o != 0, true
	case token.LSS:
		return o < 0, true
	case token.LEQ:
		return o <= 0, true
	case token.GTR:
		return o > 0, true
	case token.GEQ:
		return o >= 0, true
	}
	return false, false
}

func classOfByte(c int64) (pclass, bool) {
	switch c {
	case '{':
		return pOpen, true
	case '}':
		return pClose, true
	}
	return pOther, false
}

// cmpByte: equality of two byte-like values under the current symbol
func (x *prefixInterp) cmpByte(a, b pv, st *pconf) (bool, bool) {
	if a.kind == pvBConst && b.kind == pvBConst {
		return a.c == b.c, true
	}
	if st.sym == nil {
		return false, false
	}
	side := func(v pv) (pclass, bool) {
		switch v.kind {
		case pvByte1:
			return st.sym.c1, true
		case pvByte2:
			return st.sym.c2, true
		}
		return 0, false
	}
	if (a.kind == pvByte1 && b.kind == pvByte2) || (a.kind == pvByte2 && b.kind == pvByte1) {
		return st.sym.eq, true
	}
	if a.kind == b.kind && (a.kind == pvByte1 || a.kind == pvByte2) {
		return true, true
	}
	v, k := a, b
	if a.kind == pvBConst {
		v, k = b, a
	}
	cl, ok := side(v)
	if !ok || k.kind != pvBConst {
		return false, false
	}
	kc, special := classOfByte(k.c)
	if special {
		return cl == kc, true
	}
	if cl != pOther {
		return false, true // a brace is not that other byte
	}
	return false, false // some other byte: may or may not be this constant
}

func isByteLike(v pv) bool { return v.kind == pvByte1 || v.kind == pvByte2 || v.kind == pvBConst }

func (x *prefixInterp) binop(b *ssa.BinOp, st *pconf) pv {
	l, r := x.val(b.X, st), x.val(b.Y, st)
	boolPV := func(t bool) pv {
		if t {
			return pv{kind: pvBool, c: 1}
		}
		return pv{kind: pvBool}
	}
	switch b.Op {
	case token.ADD, token.SUB:
		k := r
		v := l
		if b.Op == token.ADD && l.kind == pvConst && r.kind != pvConst {
			v, k = r, l
		}
		if k.kind != pvConst {
			return pv{kind: pvUnk}
		}
		d := int(k.c)
		if b.Op == token.SUB {
			d = -d
		}
		switch v.kind {
		case pvRel:
			nk := v.k - d
			if nk >= -1 && nk <= 1 {
				return pv{kind: pvRel, k: nk}
			}
			if nk > 1 {
				return pv{kind: pvOld, k: nk}
			}
		case pvOld:
			nk := v.k - d
			if nk >= 1 {
				return pv{kind: pvOld, k: nk}
			}
		case pvNeg:
			n := v.c + int64(d)
			if n < 0 {
				return pv{kind: pvNeg, c: n}
			}
			return pv{kind: pvConst, c: n}
		case pvConst:
			n := v.c + int64(d)
			if n < 0 {
				return pv{kind: pvNeg, c: n}
			}
			return pv{kind: pvConst, c: n}
		case pvLen:
			if st.exited && d <= 0 && d >= -1 {
				return pv{kind: pvRel, k: st.exitK - d} // the length is i - exitK at the exit
			}
		}
		return pv{kind: pvUnk}
	case token.EQL, token.NEQ, token.LSS, token.LEQ, token.GTR, token.GEQ:
		if l.kind == pvBool && r.kind == pvBool && (b.Op == token.EQL || b.Op == token.NEQ) {
			return boolPV((l.c == r.c) == (b.Op == token.EQL))
		}
		if isByteLike(l) && isByteLike(r) && (b.Op == token.EQL || b.Op == token.NEQ) {
			eq, ok := x.cmpByte(l, r, st)
			if !ok {
				return pv{kind: pvUnk}
			}
			return boolPV(eq == (b.Op == token.EQL))
		}
		if st.exited && ((l.kind == pvRel && r.kind == pvLen) || (l.kind == pvLen && r.kind == pvRel)) {
			// i == l after the exit
			rk := l
			if l.kind == pvLen {
				rk = r
			}
			t, ok := x.cmpInt(b.Op, pv{kind: pvRel, k: rk.k}, pv{kind: pvRel, k: st.exitK}, st)
			if l.kind == pvLen {
				t, ok = x.cmpInt(b.Op, pv{kind: pvRel, k: st.exitK}, pv{kind: pvRel, k: rk.k}, st)
			}
			if ok {
				return boolPV(t)
			}
			return pv{kind: pvUnk}
		}
		if t, ok := x.cmpInt(b.Op, l, r, st); ok {
			return boolPV(t)
		}
		return pv{kind: pvUnk}
	case token.LAND, token.AND:
		if l.kind == pvBool && r.kind == pvBool {
			return boolPV(l.c != 0 && r.c != 0)
		}
	case token.LOR, token.OR:
		if l.kind == pvBool && r.kind == pvBool {
			return boolPV(l.c != 0 || r.c != 0)
		}
	}
	return pv{kind: pvUnk}
}

// specStep: the reference automaton consumes the current symbol (no mismatch) — or computes the verdict at a mismatch
func (s pspec) afterByte(c1 pclass) (next pspec, setP bool) {
	next = s
	next.justClosed = false
	switch c1 {
	case pOpen:
		if !s.inside {
			setP = true
			next.pSet = true
		}
		next.inside = true
	case pClose:
		next.justClosed = s.inside
		next.inside = false
	}
	return next, setP
}

type pverdict int

const (
	wantStart pverdict = iota
	wantPos
	wantLen
)

func (x *prefixInterp) expected(st *pconf) (pverdict, bool, bool) { // verdict, a parameter start exists, ok
	if st.exited {
		if st.spec.justClosed {
			return wantStart, st.spec.pSet, true
		}
		return wantLen, false, true
	}
	if st.sym == nil || st.sym.eq {
		return 0, false, false // a return where the texts still agree
	}
	after, _ := st.spec.afterByte(st.sym.c1)
	if st.spec.inside || after.inside || st.spec.justClosed {
		return wantStart, after.pSet, true
	}
	return wantPos, false, true
}

func (x *prefixInterp) witness(st *pconf) string {
	var a, b []byte
	for _, s := range st.word {
		c1, c2 := s.chars()
		a = append(a, c1)
		b = append(b, c2)
	}
	if !st.exited && st.sym != nil {
		c1, c2 := st.sym.chars()
		a = append(a, c1)
		b = append(b, c2)
		a = append(a, 'z') // the texts go on
		b = append(b, 'z')
	}
	return fmt.Sprintf("%q / %q", string(a), string(b))
}

func (x *prefixInterp) judge(r pv, st *pconf) {
	x.returns++
	if os.Getenv("MUXLINT_DEBUG_PREFIX") != "" {
		fmt.Fprintf(os.Stderr, "judge %s exited=%v exitK=%d iZero=%v ret=%+v spec=%+v\n", x.witness(st), st.exited, st.exitK, st.iZero, r, st.spec)
	}
	want, hasP, ok := x.expected(st)
	if !ok {
		x.bad = append(x.bad, "returns while the two texts still agree and neither has ended (texts "+x.witness(st)+")")
		return
	}
	isLen := r.kind == pvLen || (st.exited && r.kind == pvRel && r.k == st.exitK) || (st.exited && st.iZero && r.kind == pvConst && r.c == 0)
	isPos := (!st.exited && r.kind == pvRel && r.k == 0) || (st.exited && isLen) || (st.iZero && r.kind == pvConst && r.c == 0)
	isStart := (r.eqP && hasP) || (st.setP && r.kind == pvRel && r.k == 0)
	isNone := r.kind == pvNeg && r.c != -1
	desc := func() string {
		switch {
		case r.kind == pvNeg:
			return fmt.Sprintf("the constant %d", r.c)
		case r.kind == pvRel && r.k == 0:
			return "the current position"
		case r.kind == pvLen:
			return "the length"
		case r.eqP:
			return "the start of the last parameter"
		case r.kind == pvRel || r.kind == pvOld:
			return "an earlier position that is not the start of the last parameter"
		}
		return "a value the analysis cannot place"
	}
	switch want {
	case wantStart:
		good := (hasP && isStart) || (!hasP && isNone)
		if !good {
			if r.kind == pvUnk || (r.kind == pvConst && !st.iZero) {
				x.fail("a returned value could not be placed")
				return
			}
			x.bad = append(x.bad, "for the texts "+x.witness(st)+" the split point must be "+ifelse(hasP, "the start of the last parameter (the position is inside or directly behind it)", "none (negative, not -1)")+" but the function returns "+desc())
		}
	case wantPos:
		if !isPos {
			if r.kind == pvUnk || (r.kind == pvConst && !st.iZero) {
				x.fail("a returned value could not be placed")
				return
			}
			x.bad = append(x.bad, "for the texts "+x.witness(st)+" the split point must be the first differing position but the function returns "+desc())
		}
	case wantLen:
		if !isLen {
			if r.kind == pvUnk || (r.kind == pvConst && !st.iZero) {
				x.fail("a returned value could not be placed")
				return
			}
			x.bad = append(x.bad, "for the texts "+x.witness(st)+" (one text is a prefix of the other and does not end in a parameter) the split point must be the shorter length but the function returns "+desc())
		}
	}
}

func (x *prefixInterp) confKey(b *ssa.BasicBlock, st *pconf) string {
	var parts []string
	for _, in := range b.Instrs {
		phi, ok := in.(*ssa.Phi)
		if !ok {
			break
		}
		parts = append(parts, st.env[phi].key())
	}
	last := "-"
	if n := len(st.word); n > 0 {
		last = fmt.Sprint(st.word[n-1]) // the function may look back at the last byte of the common part
	}
	return fmt.Sprintf("%d|%s|%v|%v|%s", b.Index, strings.Join(parts, ","), st.spec, st.iZero, last)
}

func (x *prefixInterp) isLoopHeader(b, pred *ssa.BasicBlock) bool {
	return pred != nil && b.Dominates(pred)
}

type pframe struct {
	f     *ssa.Function
	depth int
	ret   func(v pv, st *pconf) // nil in the function under analysis: a return is judged
}

// run executes from the start of block b, entered from pred
func (x *prefixInterp) run(b, pred *ssa.BasicBlock, st *pconf) {
	x.exec(b, pred, st, &pframe{f: x.f}, 0)
}

// exec executes block b from instruction index `from` (0 = from the top, phis included)
func (x *prefixInterp) exec(b, pred *ssa.BasicBlock, st *pconf, fr *pframe, from int) {
	for {
		x.steps++
		if x.steps > 400000 {
			x.fail("exploration budget exhausted")
			return
		}
		if x.undecided != "" {
			return
		}
		if from == 0 {
			vals := map[*ssa.Phi]pv{}
			for _, in := range b.Instrs {
				phi, ok := in.(*ssa.Phi)
				if !ok {
					break
				}
				for i, p := range b.Preds {
					if p == pred {
						vals[phi] = x.val(phi.Edges[i], st)
					}
				}
			}
			back := x.isLoopHeader(b, pred)
			if back && fr.depth > 0 {
				x.fail("a loop inside a helper")
				return
			}
			// the loop counter: the phi that is advanced by one on the back edge
			var ind *ssa.Phi
			for phi := range vals {
				for _, e := range phi.Edges {
					if bo, ok := e.(*ssa.BinOp); ok && bo.Op == token.ADD && bo.X == ssa.Value(phi) {
						if k, isK := bo.Y.(*ssa.Const); isK && k.Value != nil && k.Int64() == 1 {
							ind = phi
						}
					}
				}
			}
			if back {
				// an iteration is over: the reference consumes the byte, positions age
				if st.sym == nil {
					x.fail("a loop that consumes no byte")
					return
				}
				if !st.sym.eq {
					st.word = append(st.word, *st.sym)
					st.sym = nil
					x.bad = append(x.bad, "for the texts "+x.witness(st)+" the function goes on comparing past the first position where the two texts differ (that byte is skipped without being compared)")
					return
				}
				nspec, setP := st.spec.afterByte(st.sym.c1)
				if ind == nil {
					x.fail("the loop has no counter that is advanced by one")
					return
				}
				old, had := st.env[ind]
				nv := vals[ind]
				if !had || old.kind != pvRel || nv.kind != pvRel || old.k-nv.k != 1 {
					x.fail("the loop counter is not advanced by one")
					return
				}
				for phi, v := range vals {
					switch v.kind {
					case pvRel:
						if v.k == 0 {
							v.eqP = setP
						} else if setP {
							v.eqP = false
						}
						nk := v.k + 1
						if nk >= 2 {
							v = pv{kind: pvOld, k: 2, eqP: v.eqP}
						} else {
							v.k = nk
						}
					case pvOld:
						if setP {
							v.eqP = false
						}
						v.k = 2
					case pvNeg:
						v.eqP = false
					}
					vals[phi] = v
				}
				st.word = append(st.word, *st.sym)
				st.spec = nspec
				st.sym = nil
				st.setP = false
				st.iZero = false
			} else if ind != nil && fr.depth == 0 {
				// the counter enters the loop as 0 (or as -1 when the index is counter+1: `for i := range n`)
				switch v := vals[ind]; {
				case v.kind == pvConst && v.c == 0:
					vals[ind] = pv{kind: pvRel, k: 0}
				case v.kind == pvNeg && v.c == -1:
					vals[ind] = pv{kind: pvRel, k: 1}
				default:
					x.fail("the loop counter does not start at 0")
					return
				}
			}
			for phi, v := range vals {
				st.env[phi] = v
			}
			if back {
				key := x.confKey(b, st)
				if x.visited[key] {
					return
				}
				x.visited[key] = true
				x.configs++
			}
		}
		var next *ssa.BasicBlock
		for idx := from; idx < len(b.Instrs); idx++ {
			in := b.Instrs[idx]
			switch y := in.(type) {
			case *ssa.Phi, *ssa.DebugRef:
			case *ssa.BinOp:
				st.env[y] = x.binop(y, st)
			case *ssa.UnOp:
				v := x.val(y.X, st)
				if y.Op == token.NOT && v.kind == pvBool {
					st.env[y] = pv{kind: pvBool, c: 1 - v.c}
				} else {
					st.env[y] = pv{kind: pvUnk}
				}
			case *ssa.Convert:
				st.env[y] = x.val(y.X, st)
			case *ssa.ChangeType:
				st.env[y] = x.val(y.X, st)
			case *ssa.Lookup, *ssa.Index:
				var tx, ix ssa.Value
				if lk, ok := y.(*ssa.Lookup); ok {
					tx, ix = lk.X, lk.Index
				} else {
					tx, ix = y.(*ssa.Index).X, y.(*ssa.Index).Index
				}
				text, pos := x.val(tx, st), x.val(ix, st)
				if st.sym == nil && !st.exited && fr.depth == 0 && pos.kind == pvRel && pos.k == 0 && (text.kind == pvStr1 || text.kind == pvStr2) {
					// the first look at position i in this round: one successor per letter of the alphabet
					for ai := range prefixAlphabet {
						c := st.clone()
						sy := prefixAlphabet[ai]
						c.sym = &sy
						_, c.setP = c.spec.afterByte(sy.c1)
						x.exec(b, pred, c, fr, idx)
					}
					return
				}
				st.env[y.(ssa.Value)] = x.byteAt(text, pos, st)
			case *ssa.Call:
				if bi, isB := y.Call.Value.(*ssa.Builtin); isB {
					res := pv{kind: pvUnk}
					switch bi.Name() {
					case "len":
						if v := x.val(y.Call.Args[0], st); v.kind == pvStr1 || v.kind == pvStr2 {
							res = pv{kind: pvLen}
						}
					case "min":
						all := true
						for _, a := range y.Call.Args {
							if x.val(a, st).kind != pvLen {
								all = false
							}
						}
						if all {
							res = pv{kind: pvLen}
						}
					}
					st.env[y] = res
					continue
				}
				g := y.Call.StaticCallee()
				if g == nil || len(g.Blocks) == 0 || !an.IsLibrary(g) || fr.depth >= 3 || y.Call.IsInvoke() {
					st.env[y] = pv{kind: pvUnk}
					continue
				}
				// a helper of the module: entered with the abstract arguments
				args := y.Call.Args
				if len(args) != len(g.Params) {
					st.env[y] = pv{kind: pvUnk}
					continue
				}
				for pi, par := range g.Params {
					st.env[par] = x.val(args[pi], st)
				}
				callInstr, bb, pp, resume := y, b, pred, idx+1
				x.exec(g.Blocks[0], nil, st, &pframe{f: g, depth: fr.depth + 1, ret: func(v pv, st2 *pconf) {
					st2.env[callInstr] = v
					x.exec(bb, pp, st2, fr, resume)
				}}, 0)
				return
			case *ssa.Return:
				if len(y.Results) != 1 {
					x.fail("a return without a single result")
					return
				}
				if fr.ret != nil {
					fr.ret(x.val(y.Results[0], st), st)
					return
				}
				x.judge(x.val(y.Results[0], st), st)
				return
			case *ssa.Jump:
				next = b.Succs[0]
			case *ssa.If:
				c := x.val(y.Cond, st)
				if c.kind == pvBool {
					if c.c != 0 {
						next = b.Succs[0]
					} else {
						next = b.Succs[1]
					}
					break
				}
				// the nondeterministic choices: which text is shorter, whether the shorter one goes on, whether a text is empty
				bo, isB := y.Cond.(*ssa.BinOp)
				if !isB {
					x.fail("a branch the analysis cannot decide: " + y.Cond.String())
					return
				}
				l, r := x.val(bo.X, st), x.val(bo.Y, st)
				if l.kind == pvLen && r.kind == pvLen {
					for succ := 0; succ < 2; succ++ {
						x.exec(b.Succs[succ], b, st.clone(), fr, 0)
					}
					return
				}
				if (l.kind == pvLen && r.kind == pvConst || r.kind == pvLen && l.kind == pvConst) && st.sym == nil && !st.exited && st.iZero {
					// a test of a length against a small constant before the loop: on the branch a length of 0 takes, the
					// shorter text is empty (it ends at position 0)
					kc := r
					if l.kind == pvConst {
						kc = l
					}
					zeroTruth, ok := x.cmpInt(bo.Op, pv{kind: pvConst, c: 0}, kc, &pconf{})
					if l.kind == pvConst {
						zeroTruth, ok = x.cmpInt(bo.Op, kc, pv{kind: pvConst, c: 0}, &pconf{})
					}
					if !ok {
						x.fail("a length test the analysis cannot read: " + y.Cond.String())
						return
					}
					for succ := 0; succ < 2; succ++ {
						c := st.clone()
						if (succ == 0) == zeroTruth {
							c.exited = true
							c.exitK = 0
						}
						x.exec(b.Succs[succ], b, c, fr, 0)
					}
					return
				}
				iLeft := l.kind == pvRel && (l.k == 0 || l.k == -1) && r.kind == pvLen
				iRight := r.kind == pvRel && (r.k == 0 || r.k == -1) && l.kind == pvLen
				if (iLeft || iRight) && !st.exited && fr.depth == 0 {
					op := bo.Op
					ik := l.k
					if iRight { // l <op> i  ==  i <op'> l
						ik = r.k
						switch op {
						case token.LSS:
							op = token.GTR
						case token.GTR:
							op = token.LSS
						case token.LEQ:
							op = token.GEQ
						case token.GEQ:
							op = token.LEQ
						}
					}
					var goOn int // successor taken when the position is below the length
					switch op {
					case token.LSS, token.NEQ:
						goOn = 0
					case token.GEQ, token.EQL:
						goOn = 1
					default:
						x.fail("a loop condition the analysis cannot read: " + y.Cond.String())
						return
					}
					if (ik == 0) != (st.sym == nil) {
						x.fail("a loop test at a place the analysis does not expect")
						return
					}
					x.exec(b.Succs[goOn], b, st.clone(), fr, 0)
					c := st.clone()
					if c.sym != nil && !c.sym.eq {
						c.word = append(c.word, *c.sym)
						c.sym = nil
						x.bad = append(x.bad, "for the texts "+x.witness(c)+" the function goes on comparing past the first position where the two texts differ (that byte is skipped without being compared)")
						return
					}
					if c.sym != nil {
						// tested at the bottom: the byte of this round is consumed, the reference moves on
						nspec, setP := c.spec.afterByte(c.sym.c1)
						for k2, v2 := range c.env {
							if v2.kind == pvRel && v2.k == 0 {
								v2.eqP = setP
							} else if setP {
								v2.eqP = false
							}
							c.env[k2] = v2
						}
						c.word = append(c.word, *c.sym)
						c.spec = nspec
						c.sym = nil
						c.setP = false
					}
					c.exited = true
					c.exitK = ik
					x.exec(b.Succs[1-goOn], b, c, fr, 0)
					return
				}
				if st.exited && (l.kind == pvLen && r.kind == pvConst || r.kind == pvLen && l.kind == pvConst) {
					lk, rk := l, r
					if lk.kind == pvLen {
						lk = pv{kind: pvRel, k: st.exitK}
					} else {
						rk = pv{kind: pvRel, k: st.exitK}
					}
					if t, ok := x.cmpInt(bo.Op, lk, rk, st); ok {
						if t {
							next = b.Succs[0]
						} else {
							next = b.Succs[1]
						}
						break
					}
				}
				if (iLeft || iRight) && st.exited {
					// after the end of the shorter text: i == l
					lk, rk := l, r
					if lk.kind == pvLen {
						lk = pv{kind: pvRel, k: st.exitK}
					}
					if rk.kind == pvLen {
						rk = pv{kind: pvRel, k: st.exitK}
					}
					t, ok := x.cmpInt(bo.Op, lk, rk, st)
					if ok {
						if t {
							next = b.Succs[0]
						} else {
							next = b.Succs[1]
						}
						break
					}
				}
				x.fail(fmt.Sprintf("a branch the analysis cannot decide: %s", y.Cond.String()))
				return
			default:
				if v, isV := in.(ssa.Value); isV {
					st.env[v] = pv{kind: pvUnk}
				}
			}
		}
		if next == nil {
			x.fail("a block without a successor")
			return
		}
		pred, b, from = b, next, 0
	}
}

// byteAt: text[index] — decided only for the current position of one of the two texts
func (x *prefixInterp) byteAt(text, idx pv, st *pconf) pv {
	if st.exited && idx.kind == pvRel && idx.k == st.exitK+1 && len(st.word) > 0 && (text.kind == pvStr1 || text.kind == pvStr2) {
		// the last byte of the common part, after the shorter text has ended: its class is known
		last := st.word[len(st.word)-1]
		cl := last.c1
		if text.kind == pvStr2 {
			cl = last.c2
		}
		switch cl {
		case pOpen:
			return pv{kind: pvBConst, c: '{'}
		case pClose:
			return pv{kind: pvBConst, c: '}'}
		}
		return pv{kind: pvBConst, c: 'a'}
	}
	if idx.kind != pvRel || idx.k != 0 || st.sym == nil {
		return pv{kind: pvUnk}
	}
	switch text.kind {
	case pvStr1:
		return pv{kind: pvByte1}
	case pvStr2:
		return pv{kind: pvByte2}
	}
	return pv{kind: pvUnk}
}

// splitPointFunc: the (string, string) int function of the syntax package that Segment.Similarity calls
func splitPointFunc(c *Ctx) *ssa.Function {
	sim := c.P.Func("syntax.(*Segment).Similarity")
	if sim == nil {
		return nil
	}
	var out *ssa.Function
	an.AllInstrs(sim, func(in ssa.Instruction) {
		call := an.CallOf(in)
		if call == nil {
			return
		}
		g := an.StaticCallee(call)
		if g == nil || !strings.HasPrefix(an.FuncKey(g), "syntax.") || len(g.Params) != 2 || g.Signature.Results().Len() != 1 {
			return
		}
		for _, p := range g.Params {
			if b, ok := p.Type().Underlying().(*types.Basic); !ok || b.Kind() != types.String {
				return
			}
		}
		if b, ok := g.Signature.Results().At(0).Type().Underlying().(*types.Basic); !ok || b.Kind() != types.Int {
			return
		}
		out = an.Origin(g)
	})
	return out
}

func ruleSplitPointAutomaton(c *Ctx, rule string) {
	c.R.Rule(c.R.Property+"."+rule, 1, "the common prefix of two segment texts never ends inside a parameter or directly behind one, for all pairs of texts (abstract interpretation over the brace alphabet)")
	f := splitPointFunc(c)
	if f == nil || len(f.Blocks) == 0 {
		c.R.Add(rule, "pkg:syntax", "split-point/function", "-", true, "no (string, string) int function is called by Segment.Similarity (the split point is computed elsewhere: not decided here)")
		return
	}
	x := &prefixInterp{f: f, visited: map[string]bool{}}
	st := &pconf{env: map[ssa.Value]pv{f.Params[0]: {kind: pvStr1}, f.Params[1]: {kind: pvStr2}}, iZero: true}
	x.run(f.Blocks[0], nil, st)
	switch {
	case x.undecided != "" && len(x.bad) == 0:
		c.R.Note("%s.%s: the split-point function %s is not decided by the abstract interpreter (%s)", c.R.Property, rule, an.FuncKey(f), x.undecided)
		c.R.Add(rule, c.fk(f), "split-point/all-pairs-of-texts", c.P.Pos(f.Pos()), true, "not decided: "+x.undecided+" (the function is written in a form the abstract interpreter does not follow)")
	case len(x.bad) > 0:
		sort.Strings(x.bad)
		msgs := dedupStrings(x.bad)
		sort.SliceStable(msgs, func(i, j int) bool { return len(msgs[i]) < len(msgs[j]) }) // shortest witnesses first
		if len(msgs) > 3 {
			msgs = msgs[:3]
		}
		c.R.Add(rule, c.fk(f), "split-point/all-pairs-of-texts", c.P.Pos(f.Pos()), false, "the split point breaks the rule that a parameter is never cut and is followed by at least one literal byte: "+strings.Join(msgs, "; ")+" — the tree then holds nodes that begin or end inside a parameter (both routes answer 404), two literal siblings with one first byte, or two nodes for one pattern")
	default:
		c.R.Add(rule, c.fk(f), "split-point/all-pairs-of-texts", c.P.Pos(f.Pos()), true, fmt.Sprintf("agrees with the reference rule on every abstract configuration (%d configurations of the loop, %d returns judged): the result holds for texts of every length", x.configs, x.returns))
	}
}
