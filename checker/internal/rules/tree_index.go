package rules

import (
	"strings"

	"golang.org/x/tools/go/ssa"

	"muxlint/internal/an"
)

var inPlaceSliceMutators = []string{"slices.SortStableFunc", "slices.SortFunc", "slices.Sort", "slices.Reverse", "slices.Delete", "slices.DeleteFunc", "slices.Insert", "sort.Slice", "sort.SliceStable"}

// ruleIndexRebuilt is C03.R1: every mutation of a node's child list is
// followed, on every path to a successful return, by a rebuild (or reset) of
// that node's first-byte index.
func ruleIndexRebuilt(c *Ctx, rule string) {
	a := c.A
	c.R.Rule(c.R.Property+"."+rule, 3, "the first-byte index equals {first byte of literal child -> position} whenever a matcher can see it: every child-list mutation is followed by an index rebuild")
	spec := &PairSpec{
		Rule: rule,
		IsA: func(f *ssa.Function, in ssa.Instruction) (string, string, bool) {
			if base, field, _, ok := fieldStore(in, a.NodeT); ok && field == a.FChildren {
				return base, "store:" + a.FChildren, true
			}
			if st, ok := in.(*ssa.Store); ok {
				if ia, ok := st.Addr.(*ssa.IndexAddr); ok {
					if base, ok := fieldLoadOf(ia.X, a.NodeT, a.FChildren); ok {
						return base, "elem-store:" + a.FChildren, true
					}
				}
			}
			if call, ok := calleeNamed(in, inPlaceSliceMutators...); ok && len(call.Args) > 0 {
				if base, ok := fieldLoadOf(call.Args[0], a.NodeT, a.FChildren); ok {
					return base, "in-place:" + shortCallee(an.CalleeName(call)) + ":" + a.FChildren, true
				}
			}
			return "", "", false
		},
		IsB: func(f *ssa.Function, in ssa.Instruction) (string, bool) {
			if call, ok := calleeIs(in, a.IndexBuilder); ok {
				if _, isDefer := in.(*ssa.Defer); !isDefer {
					return an.AP(call.Args[0]), true
				}
			}
			if base, field, _, ok := fieldStore(in, a.NodeT); ok && field == a.FIndexes {
				return base, true
			}
			return "", false
		},
	}
	sites := c.RunPair(spec)
	c.reportPair(rule, sites, func(s *pairSite) string {
		return "child list of " + s.x + " is mutated (" + s.what + ") and a successful return is reachable without rebuilding its first-byte index: a stale index sends literal requests to the wrong position (404 for live routes, or index out of range)"
	})
}

func shortCallee(n string) string {
	if i := strings.LastIndex(n, "/"); i >= 0 {
		n = n[i+1:]
	}
	return n
}

// ruleIndexRebuildComplete is C03.R2: the index builder starts from an empty
// map: every path from its entry to a map insert passes a fresh make stored
// to the index field or a clear of it.
func ruleIndexRebuildComplete(c *Ctx, rule string) {
	a := c.A
	f := a.IndexBuilder
	c.R.Rule(c.R.Property+"."+rule, 1, "the rebuild is complete: entries of removed children do not survive a rebuild")
	if f == nil {
		c.R.Add(rule, "pkg:tree", "index-builder/exists", "-", false, "no function rebuilds the first-byte index of a node (the index field could not be identified): literal children cannot be found through an index that is kept current")
		return
	}
	n := 0
	an.AllInstrs(f, func(in ssa.Instruction) {
		mu, ok := in.(*ssa.MapUpdate)
		if !ok {
			return
		}
		base, ok := fieldLoadOf(mu.Map, a.NodeT, a.FIndexes)
		if !ok {
			return
		}
		n++
		q := &an.Query{
			Target: func(x ssa.Instruction) bool { return x == in },
			Block: func(x ssa.Instruction) bool {
				if call, ok := builtinCall(x, "clear"); ok {
					if b, ok := fieldLoadOf(call.Args[0], a.NodeT, a.FIndexes); ok && b == base {
						return true
					}
				}
				return false
			},
			BlockEdge: func(b *ssa.BasicBlock, succ int) bool {
				// the edge on which the index field is known nil followed by a fresh make: handled below
				return false
			},
		}
		// a fresh make stored to the field also resets it — but only on the path that executes it
		q.Block = chainBlock(q.Block, func(x ssa.Instruction) bool {
			if b, field, val, ok := fieldStore(x, a.NodeT); ok && field == a.FIndexes && b == base {
				_, isMake := val.(*ssa.MakeMap)
				return isMake
			}
			return false
		})
		path := q.Search(an.Entry(f))
		construct := "insert-into:" + base + "." + a.FIndexes
		if path == nil {
			c.R.Add(rule, c.fk(f), construct, c.pos(in), true, "every path to the insert resets the map first (fresh make or clear)")
		} else {
			o := c.R.Add(rule, c.fk(f), construct, c.pos(in), false, "the index builder inserts into a map that may still hold entries of an earlier child list: after a removal the index keeps bytes of removed children and its size no longer is the literal/parameter boundary")
			o.Path = c.P.PathString(path)
		}
	})
	if n == 0 {
		an.Fatalf("UNRESOLVED anchor: index builder %s has no insert", c.fk(f))
	}
	// the builder inserts only literal children: the insert is dominated by Type == String
	an.AllInstrs(f, func(in ssa.Instruction) {
		mu, ok := in.(*ssa.MapUpdate)
		if !ok {
			return
		}
		if _, ok := fieldLoadOf(mu.Map, a.NodeT, a.FIndexes); !ok {
			return
		}
		dom := an.DominatedByEdge(in, func(b *ssa.BasicBlock, succ int) bool {
			cond, onTrue := an.EdgeCond(b, succ)
			if cond == nil {
				return false
			}
			x, k, eq, ok := an.CondAtom(cond)
			if !ok || !strings.HasSuffix(an.AP(x), "."+a.FSegment+".Type") {
				return false
			}
			return an.ConstKey(k) == a.Kind("String") && eq == onTrue
		})
		c.R.Add(rule, c.fk(f), "insert-only-literal-children", c.pos(in), dom, ifelse(dom, "insert is dominated by segment.Type == String", "the first-byte index may receive a non-literal child: the ordered scan then starts past parameter children"))
	})
}

func chainBlock(a, b func(ssa.Instruction) bool) func(ssa.Instruction) bool {
	return func(x ssa.Instruction) bool { return (a != nil && a(x)) || b(x) }
}

func ifelse(c bool, a, b string) string {
	if c {
		return a
	}
	return b
}
