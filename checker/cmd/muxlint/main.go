// muxlint decides structural clauses of the mux properties C01..C20 by static
// analysis of /repo's current source (go/packages + go/types + go/ssa).
package main

import (
	"encoding/json"
	"flag"
	"fmt"
	"os"
	"path/filepath"
	"runtime/debug"
	"sort"
	"strings"
	"time"

	"golang.org/x/tools/go/ssa"

	"muxlint/internal/an"
	"muxlint/internal/rules"
)

func main() {
	property := flag.String("property", "", "property id (C01..C20), or 'all'")
	tier := flag.String("tier", "quick", "quick | thorough")
	repo := flag.String("repo", "/repo", "module root to analyse")
	evidence := flag.String("evidence", "", "evidence directory (default <verif>/evidence)")
	verif := flag.String("verif", "", "verif root (default: parent of the binary's directory)")
	replay := flag.String("replay", "", "replay file of a violation")
	dump := flag.String("dump", "", "dump SSA of the function with this key")
	list := flag.Bool("list", false, "list the function universe")
	obls := flag.Bool("obligations", false, "print every obligation")
	noCorpus := flag.Bool("no-corpus", false, "thorough tier without the mutation corpus")
	jsonOut := flag.String("json", "", "write obligations (key, verdict) as JSON to this file")
	instantiate := flag.Bool("instantiate", false, "build SSA with InstantiateGenerics")
	flag.Parse()

	if v := os.Getenv("VERIF_TIER"); v != "" && !isFlagSet("tier") {
		*tier = v
	}
	root := *verif
	if root == "" {
		exe, err := os.Executable()
		if err == nil {
			root = filepath.Dir(filepath.Dir(exe))
		} else {
			root = "/verif"
		}
	}
	if *evidence == "" {
		*evidence = filepath.Join(root, "evidence")
	}

	code := run(&options{
		property: *property, tier: *tier, repo: *repo, evidence: *evidence, root: root, replay: *replay,
		dump: *dump, list: *list, obls: *obls, noCorpus: *noCorpus, jsonOut: *jsonOut, instantiate: *instantiate,
	})
	os.Exit(code)
}

func isFlagSet(name string) bool {
	set := false
	flag.Visit(func(f *flag.Flag) {
		if f.Name == name {
			set = true
		}
	})
	return set
}

type options struct {
	property, tier, repo, evidence, root, replay, dump, jsonOut string
	list, obls, noCorpus, instantiate                            bool
}

func run(o *options) (code int) {
	defer func() {
		if r := recover(); r != nil {
			if ce, ok := r.(*an.CheckerError); ok {
				fmt.Println("CHECKER-ERROR", ce.Msg)
			} else {
				fmt.Println("CHECKER-ERROR internal panic:", r)
				fmt.Println(string(debug.Stack()))
			}
			code = 2
		}
	}()

	var replayKey string
	if o.replay != "" {
		data, err := os.ReadFile(o.replay)
		if err != nil {
			an.Fatalf("replay: %v", err)
		}
		var rf struct {
			Property string `json:"property"`
			Key      string `json:"key"`
		}
		if err := json.Unmarshal(data, &rf); err != nil {
			an.Fatalf("replay: %v", err)
		}
		o.property = rf.Property
		replayKey = rf.Key
		o.evidence = filepath.Join(os.TempDir(), "muxlint-replay-evidence")
		defer os.RemoveAll(o.evidence)
	}

	start := time.Now()
	prog := an.Load(o.repo, o.instantiate)

	if o.list {
		for _, f := range prog.Funcs {
			fmt.Printf("%-60s %s lib=%v\n", an.FuncKey(f), prog.Pos(f.Pos()), an.IsLibrary(f))
		}
		fmt.Printf("%d packages, %d functions\n", len(prog.Pkgs), len(prog.Funcs))
		return 0
	}
	if o.dump != "" {
		for _, f := range prog.Funcs {
			if an.FuncKey(f) == o.dump || strings.HasSuffix(an.FuncKey(f), o.dump) {
				f.WriteTo(os.Stdout)
				dumpAPs(f)
			}
		}
		return 0
	}

	if o.property == "" {
		an.Fatalf("missing -property")
	}
	props := []string{o.property}
	if o.property == "all" {
		props = rules.Properties()
	}
	anchors := rules.Resolve(prog)
	known := an.LoadKnown(filepath.Join(o.root, "known_findings.json"))

	worst := 0
	var allObls []*an.Obligation
	for _, pid := range props {
		spec := rules.Lookup(pid)
		if spec == nil {
			an.Fatalf("unknown property %q", pid)
		}
		pstart := time.Now()
		rep := an.NewReport(pid)
		anchors.Describe(rep)
		ctx := rules.NewCtx(prog, anchors, rep)
		spec.Run(ctx)
		for k := range ctx.O.Inlined {
			rep.Inlined[k] = true
		}
		extra := map[string]any{"tier_steps": []string{"default configuration"}}
		var extraLines []string
		ecode := 0
		if o.tier == "thorough" && o.replay == "" {
			lines, xcode := thorough(o, prog, pid, rep, extra)
			extraLines = lines
			ecode = xcode
		}
		wall := time.Since(pstart).Seconds()
		if pid == props[0] {
			wall = time.Since(start).Seconds()
		}
		cmd := fmt.Sprintf("./bin/muxlint -property %s -tier %s", pid, o.tier)
		out := rep.Finish(prog, known, o.evidence, o.tier, wall, extra, cmd, spec.Explanation, spec.Assumptions)
		if replayKey != "" {
			for _, ob := range rep.Obls {
				if ob.Key == replayKey {
					verdict := "DISCHARGED"
					if !ob.OK {
						verdict = "FAILS"
					}
					fmt.Printf("replay %s: %s at %s: %s %s\n", ob.Key, verdict, ob.At, ob.Msg, ob.Path)
					if !ob.OK {
						return 1
					}
					return 0
				}
			}
			fmt.Printf("replay %s: construct no longer present in the current tree\n", replayKey)
			return 0
		}
		if o.obls {
			for _, ob := range rep.Obls {
				v := "ok  "
				if !ob.OK {
					v = "FAIL"
					if ob.Known {
						v = "KNWN"
					}
				}
				fmt.Printf("  %s %-8s %-28s %s — %s\n", v, ob.Rule, ob.At, ob.Key, ob.Msg)
			}
		}
		for _, l := range out.Lines {
			fmt.Println(l)
		}
		for _, l := range extraLines {
			fmt.Println(l)
		}
		code := out.ExitCode
		if ecode == 2 && code == 0 {
			code = 2
		}
		fmt.Printf("%s tier=%s obligations=%d discharged=%d known=%d violations=%d functions=%d exit=%d (%.1fs)\n",
			pid, o.tier, len(rep.Obls), len(rep.Obls)-out.Violations-out.KnownHits, out.KnownHits, out.Violations, len(rep.Funcs), code, wall)
		if code > worst && !(worst == 1) {
			worst = code
		}
		if code == 1 {
			worst = 1
		}
		allObls = append(allObls, rep.Obls...)
	}
	if o.jsonOut != "" {
		type kv struct {
			Key string `json:"key"`
			OK  bool   `json:"ok"`
		}
		var l []kv
		for _, ob := range allObls {
			l = append(l, kv{ob.Key, ob.OK})
		}
		sort.Slice(l, func(i, j int) bool { return l[i].Key < l[j].Key })
		data, _ := json.MarshalIndent(l, "", " ")
		os.WriteFile(o.jsonOut, data, 0o644)
	}
	return worst
}

func dumpAPs(f *ssa.Function) {
	o := an.NewOriginator(nil)
	fmt.Println("# access paths / origins")
	an.AllInstrs(f, func(in ssa.Instruction) {
		if v, ok := in.(ssa.Value); ok {
			fmt.Printf("#  %-6s ap=%-40s origin=%s\n", v.Name(), an.AP(v), o.Of(v))
		}
	})
}
