package main

import (
	"encoding/json"
	"fmt"
	"io"
	"os"
	"os/exec"
	"path/filepath"
	"runtime"
	"sort"
	"strings"
	"sync"
	"time"

	"golang.org/x/tools/go/ssa"
	"golang.org/x/tools/go/ssa/ssautil"

	"muxlint/internal/an"
	"muxlint/internal/rules"
)

// thorough runs the additional steps of the thorough tier for one property:
//  1. the GOARCH=386 configuration (all build-constrained files), same obligations and verdicts;
//  2. shape preservation of generic instantiation (the templates analysed are what the instances execute);
//  3. a second front end (go1.26.8 + x/tools v0.50.0) must produce the identical obligation list;
//  4. the self-validation corpus of source edits for this property (breaking edits must be
//     reported by the expected rule, benign edits must stay silent), one analyser process per variant.
// A disagreement in 1-3 or a wrong corpus outcome is a checker error (exit 2), never a VIOLATION.
func thorough(o *options, prog *an.Prog, pid string, rep *an.Report, extra map[string]any) ([]string, int) {
	var lines []string
	code := 0
	steps := []string{"default configuration"}
	fail := func(format string, a ...any) {
		lines = append(lines, "CHECKER-ERROR "+fmt.Sprintf(format, a...))
		code = 2
	}
	base := oblMap(rep.Obls)

	// 1. GOARCH=386
	func() {
		defer func() {
			if r := recover(); r != nil {
				fail("GOARCH=386 configuration: %v", r)
			}
		}()
		p386 := an.Load(o.repo, false, "GOARCH=386")
		other := runProperty(p386, pid)
		if d := diffObls(base, oblMap(other.Obls)); d != "" {
			fail("GOARCH=386 configuration disagrees with the default one: %s", d)
		}
		extra["goarch_386"] = map[string]any{"packages": len(p386.Pkgs), "functions": len(p386.Funcs), "obligations": len(other.Obls), "identical": code == 0}
		steps = append(steps, fmt.Sprintf("GOARCH=386: %d packages, %d functions, %d obligations, identical verdicts", len(p386.Pkgs), len(p386.Funcs), len(other.Obls)))
	}()

	// 2. instantiation shape check
	func() {
		defer func() {
			if r := recover(); r != nil {
				fail("instantiated generics: %v", r)
			}
		}()
		pi := an.Load(o.repo, true)
		n, bad := instantiationShapes(pi)
		if len(bad) > 0 {
			fail("generic instantiation changes the shape of %d function bodies (first: %s)", len(bad), bad[0])
		}
		extra["instantiations_checked"] = n
		steps = append(steps, fmt.Sprintf("InstantiateGenerics: %d instantiated bodies have the block/instruction shape of their templates", n))
	}()

	// 3. second front end
	if os.Getenv("MUXLINT_SECOND_FRONTEND") != "off" {
		bin, err := secondFrontEnd(o.root)
		if err != nil {
			steps = append(steps, "second front end: not available ("+err.Error()+")")
			extra["second_front_end"] = "not available: " + err.Error()
		} else {
			tmp, _ := os.MkdirTemp("", "muxlint-fe2-")
			defer os.RemoveAll(tmp)
			out := filepath.Join(tmp, "obls.json")
			cmd := exec.Command(bin, "-property", pid, "-tier", "quick", "-repo", o.repo, "-verif", o.root, "-evidence", filepath.Join(tmp, "ev"), "-json", out)
			cmd.Env = append(os.Environ(), "GOTOOLCHAIN=local", "PATH=/opt/veriftools/go1.26.8/bin:"+os.Getenv("PATH"))
			b, _ := cmd.CombinedOutput()
			var l []struct {
				Key string `json:"key"`
				OK  bool   `json:"ok"`
			}
			data, rerr := os.ReadFile(out)
			if rerr != nil || json.Unmarshal(data, &l) != nil {
				fail("second front end produced no obligation list: %s", firstLines(string(b), 3))
			} else {
				other := map[string]bool{}
				for _, x := range l {
					other[x.Key] = x.OK
				}
				if d := diffObls(base, other); d != "" {
					fail("second front end (go1.26.8 + x/tools v0.50.0) disagrees: %s", d)
				}
				extra["second_front_end"] = map[string]any{"toolchain": "go1.26.8", "x_tools": "v0.50.0", "obligations": len(l), "identical": true}
				steps = append(steps, fmt.Sprintf("second front end (go1.26.8, x/tools v0.50.0): %d obligations, identical keys and verdicts", len(l)))
			}
		}
	}

	// 4. corpus
	if !o.noCorpus {
		res := runCorpus(o, pid)
		extra["corpus"] = res
		steps = append(steps, fmt.Sprintf("self-validation corpus: %d entries, %d as expected, %d skipped", res.Entries, res.AsExpected, res.Skipped))
		for _, w := range res.Wrong {
			fail("corpus entry %s", w)
		}
	}
	extra["tier_steps"] = steps
	return lines, code
}

func firstLines(s string, n int) string {
	ls := strings.Split(strings.TrimSpace(s), "\n")
	if len(ls) > n {
		ls = ls[:n]
	}
	return strings.Join(ls, " | ")
}

func runProperty(p *an.Prog, pid string) *an.Report {
	spec := rules.Lookup(pid)
	rep := an.NewReport(pid)
	a := rules.Resolve(p)
	ctx := rules.NewCtx(p, a, rep)
	spec.Run(ctx)
	return rep
}

func oblMap(obls []*an.Obligation) map[string]bool {
	m := map[string]bool{}
	for _, o := range obls {
		m[o.Key] = o.OK
	}
	return m
}

func diffObls(a, b map[string]bool) string {
	var d []string
	for k, v := range a {
		w, ok := b[k]
		if !ok {
			d = append(d, "missing "+k)
		} else if v != w {
			d = append(d, "verdict differs for "+k)
		}
	}
	for k := range b {
		if _, ok := a[k]; !ok {
			d = append(d, "extra "+k)
		}
	}
	sort.Strings(d)
	if len(d) > 3 {
		d = append(d[:3], fmt.Sprintf("… %d more", len(d)-3))
	}
	return strings.Join(d, "; ")
}

// instantiationShapes compares every instantiated function body with its generic origin.
func instantiationShapes(p *an.Prog) (int, []string) {
	n := 0
	var bad []string
	for f := range ssautil.AllFunctions(p.SSA) {
		if len(f.TypeArgs()) == 0 || f.Origin() == nil || !an.InModule(f) || len(f.Blocks) == 0 || strings.Contains(f.Synthetic, "wrapper") {
			continue
		}
		o := f.Origin()
		if len(o.Blocks) == 0 {
			continue
		}
		n++
		if len(f.Blocks) != len(o.Blocks) {
			bad = append(bad, an.FuncKey(f)+": block count")
			continue
		}
		for i := range f.Blocks {
			if len(f.Blocks[i].Succs) != len(o.Blocks[i].Succs) {
				bad = append(bad, an.FuncKey(f)+": successors")
				break
			}
			if shapeOf(f.Blocks[i]) != shapeOf(o.Blocks[i]) {
				bad = append(bad, fmt.Sprintf("%s: block %d instruction kinds", an.FuncKey(f), i))
				break
			}
		}
	}
	sort.Strings(bad)
	return n, bad
}

func shapeOf(b *ssa.BasicBlock) string {
	var sb strings.Builder
	for _, in := range b.Instrs {
		switch in.(type) {
		case *ssa.ChangeType, *ssa.MakeInterface, *ssa.ChangeInterface, *ssa.Convert, *ssa.MultiConvert, *ssa.TypeAssert:
			// conversions may appear or disappear when a type parameter is replaced by a concrete type
			continue
		}
		fmt.Fprintf(&sb, "%T;", in)
	}
	return sb.String()
}

// secondFrontEnd builds (once) the analyser with go1.26.8 against x/tools v0.50.0.
func secondFrontEnd(root string) (string, error) {
	goBin := "/opt/veriftools/go1.26.8/bin/go"
	if _, err := os.Stat(goBin); err != nil {
		if p, err2 := exec.LookPath("go1.26.8"); err2 == nil {
			goBin = p
		} else {
			return "", fmt.Errorf("go1.26.8 not found")
		}
	}
	bin := filepath.Join(root, "bin", "muxlint-v050")
	src := filepath.Join(root, "checker")
	if st, err := os.Stat(bin); err == nil {
		newer := false
		filepath.Walk(src, func(path string, info os.FileInfo, err error) error {
			if err == nil && strings.HasSuffix(path, ".go") && info.ModTime().After(st.ModTime()) {
				newer = true
			}
			return nil
		})
		if !newer {
			return bin, nil
		}
	}
	cmd := exec.Command(goBin, "build", "-modfile=go.v050.mod", "-o", bin, "./cmd/muxlint")
	cmd.Dir = src
	cmd.Env = append(os.Environ(), "GOFLAGS=-mod=mod", "GOPROXY=off", "GOSUMDB=off", "GOTOOLCHAIN=local", "GOWORK=off")
	if out, err := cmd.CombinedOutput(); err != nil {
		return "", fmt.Errorf("build with go1.26.8 failed: %s", firstLines(string(out), 2))
	}
	return bin, nil
}

// ---- corpus ----

type corpusEntry struct {
	Name   string `json:"name"`
	File   string `json:"file"`
	Old    string `json:"old"`
	New    string `json:"new"`
	Edits  []struct {
		File string `json:"file"`
		Old  string `json:"old"`
		New  string `json:"new"`
	} `json:"edits,omitempty"`
	Expect string `json:"expect"` // "violation:C03.R1" (rule prefix) or "silent"
	Why    string `json:"why,omitempty"`
}

type corpusResult struct {
	Entries    int      `json:"entries"`
	AsExpected int      `json:"as_expected"`
	Skipped    int      `json:"skipped"`
	Wrong      []string `json:"wrong,omitempty"`
	Details    []string `json:"details"`
}

func runCorpus(o *options, pid string) *corpusResult {
	res := &corpusResult{}
	dir := filepath.Join(o.root, "corpus", pid)
	files, _ := filepath.Glob(filepath.Join(dir, "*.json"))
	sort.Strings(files)
	var entries []corpusEntry
	for _, f := range files {
		data, err := os.ReadFile(f)
		if err != nil {
			continue
		}
		var es []corpusEntry
		if err := json.Unmarshal(data, &es); err != nil {
			var e corpusEntry
			if err2 := json.Unmarshal(data, &e); err2 != nil {
				res.Wrong = append(res.Wrong, filepath.Base(f)+": unreadable: "+err.Error())
				continue
			}
			es = []corpusEntry{e}
		}
		entries = append(entries, es...)
	}
	res.Entries = len(entries)
	if len(entries) == 0 {
		return res
	}
	self, _ := os.Executable()
	par := runtime.NumCPU() / 2
	if par > 8 {
		par = 8
	}
	if par < 1 {
		par = 1
	}
	sem := make(chan struct{}, par)
	var mu sync.Mutex
	var wg sync.WaitGroup
	for i := range entries {
		e := entries[i]
		wg.Add(1)
		sem <- struct{}{}
		go func() {
			defer wg.Done()
			defer func() { <-sem }()
			verdict, detail := runCorpusEntry(self, o, pid, e)
			mu.Lock()
			defer mu.Unlock()
			res.Details = append(res.Details, e.Name+": "+verdict+" — "+detail)
			switch verdict {
			case "as-expected":
				res.AsExpected++
			case "skipped":
				res.Skipped++
			default:
				res.Wrong = append(res.Wrong, e.Name+": "+detail)
			}
		}()
	}
	wg.Wait()
	sort.Strings(res.Details)
	sort.Strings(res.Wrong)
	return res
}

func copyTree(src, dst string) error {
	return filepath.Walk(src, func(path string, info os.FileInfo, err error) error {
		if err != nil {
			return err
		}
		rel, _ := filepath.Rel(src, path)
		if info.IsDir() {
			if info.Name() == ".git" {
				return filepath.SkipDir
			}
			return os.MkdirAll(filepath.Join(dst, rel), 0o755)
		}
		if !info.Mode().IsRegular() {
			return nil
		}
		in, err := os.Open(path)
		if err != nil {
			return err
		}
		defer in.Close()
		out, err := os.Create(filepath.Join(dst, rel))
		if err != nil {
			return err
		}
		defer out.Close()
		_, err = io.Copy(out, in)
		return err
	})
}

func runCorpusEntry(self string, o *options, pid string, e corpusEntry) (string, string) {
	tmp, err := os.MkdirTemp("", "muxlint-corpus-")
	if err != nil {
		return "error", err.Error()
	}
	defer os.RemoveAll(tmp)
	work := filepath.Join(tmp, "repo")
	if err := copyTree(o.repo, work); err != nil {
		return "error", "copy: " + err.Error()
	}
	edits := e.Edits
	if e.File != "" {
		edits = append(edits, struct {
			File string `json:"file"`
			Old  string `json:"old"`
			New  string `json:"new"`
		}{e.File, e.Old, e.New})
	}
	for _, ed := range edits {
		path := filepath.Join(work, ed.File)
		data, err := os.ReadFile(path)
		if err != nil {
			return "skipped", "file " + ed.File + " not present in the tree under test"
		}
		if strings.Count(string(data), ed.Old) < 1 {
			return "skipped", "the text to edit no longer occurs in " + ed.File
		}
		os.WriteFile(path, []byte(strings.Replace(string(data), ed.Old, ed.New, 1)), 0o644)
	}
	env := append(os.Environ(), "GOFLAGS=-mod=mod", "GOPROXY=off", "GOSUMDB=off", "GOTOOLCHAIN=local", "GOWORK=off")
	build := exec.Command("go", "build", "./...")
	build.Dir = work
	build.Env = env
	if out, err := build.CombinedOutput(); err != nil {
		return "error", "variant does not compile: " + firstLines(string(out), 2)
	}
	start := time.Now()
	outJSON := filepath.Join(tmp, "obls.json")
	cmd := exec.Command(self, "-property", pid, "-tier", "quick", "-repo", work, "-verif", o.root, "-evidence", filepath.Join(tmp, "ev"), "-json", outJSON, "-obligations")
	cmd.Env = env
	out, _ := cmd.CombinedOutput()
	exit := cmd.ProcessState.ExitCode()
	_ = start
	var failedRules []string
	for _, l := range strings.Split(string(out), "\n") {
		l = strings.TrimSpace(l)
		if strings.HasPrefix(l, "FAIL ") {
			f := strings.Fields(l)
			if len(f) > 1 {
				failedRules = append(failedRules, f[1])
			}
		}
	}
	switch {
	case e.Expect == "silent":
		if exit == 0 {
			return "as-expected", "benign edit, no report"
		}
		return "wrong", fmt.Sprintf("benign edit raised exit %d: %s", exit, firstLines(grepLines(string(out), "FAIL", "CHECKER-ERROR"), 2))
	case strings.HasPrefix(e.Expect, "violation:"):
		want := strings.TrimPrefix(e.Expect, "violation:")
		for _, r := range failedRules {
			if strings.HasPrefix(r, want) {
				return "as-expected", "reported by " + r
			}
		}
		return "wrong", fmt.Sprintf("breaking edit not reported by %s (exit %d, failed rules %v) %s", want, exit, failedRules, firstLines(grepLines(string(out), "CHECKER-ERROR"), 1))
	}
	return "error", "unknown expectation " + e.Expect
}

func grepLines(s string, subs ...string) string {
	var out []string
	for _, l := range strings.Split(s, "\n") {
		for _, sub := range subs {
			if strings.Contains(l, sub) {
				out = append(out, strings.TrimSpace(l))
				break
			}
		}
	}
	return strings.Join(out, "\n")
}
