package main

import (
	"muxlint/internal/an"
)

// thorough runs the additional steps of the thorough tier for one property.
func thorough(o *options, prog *an.Prog, pid string, rep *an.Report, extra map[string]any) ([]string, int) {
	return nil, 0
}
