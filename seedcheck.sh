#!/bin/bash
# usage: seedcheck.sh <mutant-dir containing patch.diff demo_test.go> [name]
# Confirms a seeded change in a scratch worktree of /repo: compiles, existing tests pass, demo fails with it and
# passes without; then runs every check against the changed tree. Prints one summary line.
export GOFLAGS=-mod=mod GOPROXY=off GOSUMDB=off GOTOOLCHAIN=local GOWORK=off
d=$1; name=${2:-$(basename $(dirname $d))-$(basename $d)}
wt=$(mktemp -d /tmp/seedwt-XXXX); rmdir $wt
git -C /repo worktree add -q --detach $wt HEAD || exit 2
trap "git -C /repo worktree remove --force $wt >/dev/null 2>&1; rm -rf $wt /tmp/seed-ev-$$" EXIT
cd $wt
if ! git apply $d/patch.diff 2>/tmp/seed-apply-$$; then echo "$name: PATCH-DOES-NOT-APPLY $(head -1 /tmp/seed-apply-$$)"; exit 1; fi
go build ./... 2>&1 | head -3 > /tmp/seed-build-$$; if [ -s /tmp/seed-build-$$ ]; then echo "$name: DOES-NOT-COMPILE $(head -1 /tmp/seed-build-$$)"; exit 1; fi
suite=$(go test -mod=mod -vet=off -count=1 ./... 2>&1 | grep -c '^FAIL\|^---\ FAIL\|panic:')
dir=$(head -1 $d/demo_test.go | sed -n 's/.*dir: *\([^ ]*\).*/\1/p'); [ -z "$dir" ] && dir=.
[ "$dir" = "root" ] && dir=.
race=""; head -3 $d/demo_test.go | grep -qi 'race' && ! head -3 $d/demo_test.go | grep -qi 'no -race\|not need\|no race\|does not need' && race="-race"
cp $d/demo_test.go $dir/zz_demo_test.go
with=$(cd $dir && go test -mod=mod -vet=off -count=1 $race -run '^TestDemo$' . 2>&1 | tail -1 | cut -c1-60)
git apply -R $d/patch.diff
without=$(cd $dir && go test -mod=mod -vet=off -count=1 $race -run '^TestDemo$' . 2>&1 | tail -1 | cut -c1-60)
rm -f $dir/zz_demo_test.go
git apply $d/patch.diff
caught=$(/verif/bin/muxlint -repo $wt -evidence /tmp/seed-ev-$$ -property all 2>&1 | grep -E '^C[0-9]+ tier' | grep -v 'exit=0' | awk '{print $1":"$NF}' | sed 's/(.*//' | tr '\n' ' ')
rules=$(/verif/bin/muxlint -repo $wt -evidence /tmp/seed-ev-$$ -property all -obligations 2>&1 | grep -E '^  FAIL|CHECKER-ERROR' | awk '{ if ($1=="FAIL") print $2; else print "CHECKER-ERROR" }' | sort -u | tr '\n' ' ')
echo "$name: suite_fail_lines=$suite race=[$race] with=[$with] without=[$without] caught=[$caught] rules=[$rules]"
rm -f /tmp/seed-apply-$$ /tmp/seed-build-$$
