#!/bin/bash
# Re-evaluates every seeded change under /verif/seeded and rewrites its meta.json (4 in parallel).
cd /verif
ls -d /verif/seeded/C* | xargs -P 4 -I{} sh -c '/verif/seedcheck.sh {} $(basename {}) > {}/.result 2>&1'
python3 - <<'PY'
import json,glob,re,os
props={json.loads(l)['id']:json.loads(l)['title'] for l in open('/verif/properties.jsonl')}
rows=[]
for d in sorted(glob.glob('/verif/seeded/C*')):
    name=os.path.basename(d); prop=name.split('-')[0]
    res=open(d+'/.result').read().strip().split('\n')[-1]
    m=re.search(r'suite_fail_lines=(\d+) race=\[(.*?)\] with=\[(.*?)\] without=\[(.*?)\] caught=\[(.*?)\] rules=\[(.*?)\]',res)
    notes=open(d+'/notes.md').read() if os.path.exists(d+'/notes.md') else ''
    if not m:
        rows.append((name,'INVALID',res[:120])); continue
    suite,race,w,wo,caught,rules=m.groups()
    valid = suite=='0' and 'FAIL' in w and wo.startswith('ok')
    rules=rules.split()
    own=[r for r in rules if r.startswith(prop+'.')]
    meta={"id":name,"breaks_property":prop,"property_title":props[prop],
          "needs_to_manifest":notes.strip().split('\n\n')[0][:600] if notes else "",
          "confirmed":{"compiles":True,"existing_suite_passes_with_change":suite=='0',"demo_fails_with_change":'FAIL' in w,"demo_passes_without_change":wo.startswith('ok'),"race_detector_needed":race=='-race'},
          "commands":["git -C /repo worktree add --detach <scratch> HEAD","git apply patch.diff","go build ./... && go test -mod=mod -vet=off -count=1 ./...","cp demo_test.go <pkgdir>/zz_demo_test.go && go test %s -run '^TestDemo$' .   # fails"%race,"git apply -R patch.diff && go test %s -run '^TestDemo$' .   # passes"%race,"/verif/bin/muxlint -repo <scratch> -property all"],
          "detected_by_rules":rules,"detected_by_own_property_check":bool(own),"detected_by_any_check":bool(rules)}
    json.dump(meta,open(d+'/meta.json','w'),indent=1,ensure_ascii=False)
    os.remove(d+'/.result')
    rows.append((name,'valid' if valid else 'INVALID',' '.join(own) if own else ('(other: '+' '.join(rules)+')' if rules else 'MISSED')))
for r in rows: print('%-8s %-8s %s'%r)
print('valid',sum(1 for r in rows if r[1]=='valid'),'own',sum(1 for r in rows if r[1]=='valid' and not r[2].startswith('(') and r[2]!='MISSED'),'other-only',sum(1 for r in rows if r[2].startswith('(')),'missed',sum(1 for r in rows if r[2]=='MISSED'))
PY
